(* C15 - proofs.  Part 1: the reactor's queue.  Part 2: the event loop of one
   Spinner.run on an idle reactor ends with the earliest crashing action.
   Part 3: one run.  Part 4: histories.  Part 5: the statement. *)
From Coq Require Import Permutation.
From TT Require Import Lib.Base Lib.Sort Model.Reactor Model.Spinner Gen.Spinnertabs Spec.C15 Corr.C15.

(* ------------------------------------------------------------------ *)
(* Part 1: queue facts                                                  *)
(* ------------------------------------------------------------------ *)
Section Queue.
  Context {A : Type}.
  Notation dcall := (dcall A).

  Lemma min_time_le (q : list dcall) m c : min_time q = Some m -> In c q -> m <= dc_time c.
  Proof.
    revert m; induction q as [|x r IH]; intros m Hm Hin; [destruct Hin|].
    simpl in Hm. destruct (min_time r) as [m'|] eqn:E; injection Hm as <-.
    - destruct Hin as [->|Hin]; [apply Nat.le_min_l|].
      etransitivity; [apply Nat.le_min_r|]. apply (IH m'); auto.
    - destruct Hin as [->|Hin]; [lia|]. destruct r; [destruct Hin|discriminate].
  Qed.

  Lemma min_time_in (q : list dcall) m : min_time q = Some m -> exists c, In c q /\ dc_time c = m.
  Proof.
    revert m; induction q as [|x r IH]; intros m Hm; [discriminate|].
    simpl in Hm. destruct (min_time r) as [m'|] eqn:E; injection Hm as <-.
    - destruct (Nat.min_dec (dc_time x) m') as [H|H]; rewrite H.
      + exists x; split; [left|]; reflexivity.
      + destruct (IH m' eq_refl) as [c [Hc Ht]]. exists c; split; [right|]; assumption.
    - exists x; split; [left|]; reflexivity.
  Qed.

  Lemma min_time_none (q : list dcall) : min_time q = None -> q = [].
  Proof. destruct q; [reflexivity|discriminate]. Qed.

  Lemma candidates_spec (q : list dcall) c :
    In c (candidates q) -> In c q /\ forall c', In c' q -> dc_time c <= dc_time c'.
  Proof.
    unfold candidates. destruct (min_time q) as [m|] eqn:E; [|intros []].
    intros H. apply filter_In in H as [Hin Ht]. apply Nat.eqb_eq in Ht. split; [exact Hin|].
    intros c' Hc'. rewrite Ht. eapply min_time_le; eauto.
  Qed.

  Lemma candidates_nonempty (q : list dcall) : q <> [] -> candidates q <> [].
  Proof.
    intros Hq. unfold candidates. destruct (min_time q) as [m|] eqn:E.
    - destruct (min_time_in q m E) as [c [Hc Ht]]. intro H.
      assert (In c (filter (fun c => Nat.eqb (dc_time c) m) q)) as Hin.
      { apply filter_In; split; [exact Hc|]. apply Nat.eqb_eq; exact Ht. }
      rewrite H in Hin; destruct Hin.
    - apply min_time_none in E. contradiction.
  Qed.

  Lemma choose_in orc (cands : list dcall) c orc' : choose orc cands = Some (c, orc') -> In c cands.
  Proof.
    unfold choose. destruct cands as [|x [|y r]]; [discriminate| |].
    - intros H; injection H as <- _. left; reflexivity.
    - destruct orc as [|k o]; intros H.
      + injection H as <- _. left; reflexivity.
      + assert (Hlt : k mod length (x :: y :: r) < length (x :: y :: r)).
        { apply Nat.mod_upper_bound. cbn [length]. discriminate. }
        revert H Hlt. generalize (k mod length (x :: y :: r)). intros n H Hlt.
        assert (E : c = nth n (x :: y :: r) x) by congruence.
        rewrite E. apply nth_In. exact Hlt.
  Qed.

  Lemma choose_some orc (cands : list dcall) : cands <> [] -> exists c orc', choose orc cands = Some (c, orc').
  Proof.
    destruct cands as [|x [|y r]]; [contradiction| |]; intros _; simpl.
    - eauto.
    - destruct orc; eauto.
  Qed.

  Lemma pop_next_spec (r : reactor A) c r' :
    pop_next r = Some (c, r') ->
    In c (queue r) /\ (forall c', In c' (queue r) -> dc_time c <= dc_time c')
    /\ queue r' = remove_seq (dc_seq c) (queue r)
    /\ running r' = running r /\ readers r' = readers r /\ hooks r' = hooks r
    /\ really_stopped r' = really_stopped r /\ nextseq r' = nextseq r.
  Proof.
    unfold pop_next. destruct (choose (oracle r) (candidates (queue r))) as [[c0 o]|] eqn:E; [|discriminate].
    intros H; injection H as <- <-. apply choose_in in E. apply candidates_spec in E as [H1 H2].
    simpl. repeat split; auto.
  Qed.

  Lemma pop_next_some (r : reactor A) : queue r <> [] -> exists c r', pop_next r = Some (c, r').
  Proof.
    intros Hq. unfold pop_next.
    destruct (choose_some (oracle r) (candidates (queue r)) (candidates_nonempty _ Hq)) as [c [o E]].
    rewrite E. eauto.
  Qed.

  Lemma remove_seq_in s (q : list dcall) c : In c (remove_seq s q) -> In c q /\ dc_seq c <> s.
  Proof.
    unfold remove_seq. intros H. apply filter_In in H as [H1 H2]. split; [exact H1|].
    apply negb_true_iff in H2. apply Nat.eqb_neq in H2. exact H2.
  Qed.

  Lemma remove_seq_keeps s (q : list dcall) c : In c q -> dc_seq c <> s -> In c (remove_seq s q).
  Proof.
    intros H1 H2. apply filter_In; split; [exact H1|]. apply negb_true_iff. apply Nat.eqb_neq. exact H2.
  Qed.

  Lemma remove_seq_cons s x (r : list dcall) :
    remove_seq s (x :: r) = if negb (dc_seq x =? s) then x :: remove_seq s r else remove_seq s r.
  Proof. reflexivity. Qed.

  Lemma remove_seq_length s (q : list dcall) : length (remove_seq s q) <= length q.
  Proof.
    induction q as [|x r IH]; [simpl; lia|]. rewrite remove_seq_cons.
    destruct (negb (dc_seq x =? s)); simpl; lia.
  Qed.

  Lemma remove_seq_length_lt (q : list dcall) c : In c q -> length (remove_seq (dc_seq c) q) < length q.
  Proof.
    induction q as [|x r IH]; [intros []|]. rewrite remove_seq_cons. intros [->|Hin].
    - rewrite Nat.eqb_refl. cbn [negb]. pose proof (remove_seq_length (dc_seq c) r). simpl; lia.
    - specialize (IH Hin). destruct (negb (dc_seq x =? dc_seq c)); simpl; lia.
  Qed.

  Lemma remove_seq_nodup s (q : list dcall) : NoDup (map dc_seq q) -> NoDup (map dc_seq (remove_seq s q)).
  Proof.
    induction q as [|x r IH]; simpl; [auto|]. intros H. inversion H as [|? ? Hn Hr]; subst.
    destruct (negb (dc_seq x =? s)); simpl; [|auto]. constructor; [|auto].
    intro Hin. apply Hn. apply in_map_iff in Hin as [y [Hy Hin]]. apply in_map_iff. exists y. split; [exact Hy|].
    apply remove_seq_in in Hin as [Hin _]. exact Hin.
  Qed.

  (* with distinct handles, removing the call c removes exactly c *)
  Lemma remove_seq_perm (q : list dcall) c :
    NoDup (map dc_seq q) -> In c q -> Permutation q (c :: remove_seq (dc_seq c) q).
  Proof.
    induction q as [|x r IH]; [intros _ []|]. intros Hnd Hin. inversion Hnd as [|? ? Hn Hr]; subst. simpl.
    destruct Hin as [->|Hin].
    - rewrite Nat.eqb_refl. simpl. apply perm_skip.
      assert (forall y, In y r -> dc_seq y <> dc_seq c) as Hne.
      { intros y Hy E. apply Hn. rewrite <- E. apply in_map. exact Hy. }
      clear -Hne. induction r as [|y r IH]; simpl; [reflexivity|].
      destruct (Nat.eqb_spec (dc_seq y) (dc_seq c)) as [E|E]; simpl.
      + exfalso. apply (Hne y); [left; reflexivity|exact E].
      + apply perm_skip. apply IH. intros z Hz. apply Hne. right; exact Hz.
    - destruct (Nat.eqb_spec (dc_seq x) (dc_seq c)) as [E|E]; simpl.
      + exfalso. apply Hn. rewrite E. apply in_map. exact Hin.
      + etransitivity; [apply perm_skip; apply IH; assumption|]. apply perm_swap.
  Qed.
End Queue.

(* ------------------------------------------------------------------ *)
(* Part 2: the event loop of one run                                    *)
(* ------------------------------------------------------------------ *)
Local Arguments remove_seq : simpl never.
Definition is_timeout (a : action) : bool := match a with ATimeout => true | _ => false end.
Definition crasher (a : action) : bool :=
  match a with ATimeout | AFire _ | AStopReq => true | _ => false end.
(* what run() reports when this action is the one that crashes the reactor *)
Definition act_result (a : action) : res value exc :=
  match a with
  | ATimeout => Raised ETimeout
  | AFire o => result_of o
  | AStopReq => Raised ENoResult
  | _ => Raised EOther
  end.
Definition qtoks (q : list (dcall action)) : list nat :=
  filter not_timeout_tok (map (fun c => tok_of (dc_act c)) q).

Local Arguments qtoks : simpl never.

Lemma qtoks_perm q q' : Permutation q q' -> Permutation (qtoks q) (qtoks q').
Proof.
  intros H. unfold qtoks. induction H; simpl.
  - reflexivity.
  - destruct (not_timeout_tok _); [apply perm_skip|]; assumption.
  - destruct (not_timeout_tok (tok_of (dc_act x))), (not_timeout_tok (tok_of (dc_act y)));
      try reflexivity. apply perm_swap.
  - etransitivity; eassumption.
Qed.

Lemma qtoks_cons c q :
  qtoks (c :: q) = if not_timeout_tok (tok_of (dc_act c)) then tok_of (dc_act c) :: qtoks q else qtoks q.
Proof. reflexivity. Qed.

Lemma qtoks_pop_zero q c q' :
  Permutation q (c :: q') -> not_timeout_tok (tok_of (dc_act c)) = false -> Permutation (qtoks q') (qtoks q).
Proof. intros H E. apply qtoks_perm in H. rewrite qtoks_cons, E in H. symmetry; exact H. Qed.

Lemma qtoks_pop_tok ran q c q' t :
  Permutation q (c :: q') -> tok_of (dc_act c) = t -> not_timeout_tok t = true ->
  Permutation ((ran ++ [t]) ++ qtoks q') (ran ++ qtoks q).
Proof.
  intros H <- E. apply qtoks_perm in H. rewrite qtoks_cons, E in H. rewrite <- app_assoc.
  apply Permutation_app_head. symmetry. exact H.
Qed.

Lemma qtoks_app q q' : qtoks (q ++ q') = qtoks q ++ qtoks q'.
Proof. unfold qtoks. rewrite map_app, filter_app. reflexivity. Qed.

(* cancelling the timeout call does not change the tokens of the function's calls *)
Lemma qtoks_remove_timeout s0 q :
  Forall (fun c => Nat.eqb (dc_seq c) s0 = is_timeout (dc_act c)) q -> qtoks (remove_seq s0 q) = qtoks q.
Proof.
  induction 1 as [|c r Hc Hr IH]; [reflexivity|]. rewrite remove_seq_cons.
  destruct (dc_seq c =? s0) eqn:E; cbn [negb].
  - rewrite IH. unfold qtoks. simpl. destruct (dc_act c); try discriminate. reflexivity.
  - unfold qtoks in *. simpl. rewrite IH. reflexivity.
Qed.

Lemma Forall_remove_seq {A} (P : dcall A -> Prop) s q : Forall P q -> Forall P (remove_seq s q).
Proof.
  intros H. apply Forall_forall. intros c Hc. apply remove_seq_in in Hc as [Hc _].
  eapply Forall_forall in H; eauto.
Qed.

Lemma nodup_seq_inj {A} (q : list (dcall A)) c c' :
  NoDup (map dc_seq q) -> In c q -> In c' q -> dc_seq c = dc_seq c' -> c = c'.
Proof.
  induction q as [|x r IH]; [intros _ []|]. simpl. intros H Hc Hc' E. inversion H as [|? ? Hn Hr]; subst.
  destruct Hc as [->|Hc], Hc' as [->|Hc']; auto.
  - exfalso. apply Hn. rewrite E. apply in_map. exact Hc'.
  - exfalso. apply Hn. rewrite <- E. apply in_map. exact Hc.
Qed.

Record LI (s0 : nat) (w : world) : Prop := {
  li_running : running (w_r w) = true;
  li_spinning : sp_spinning (w_sp w) = true;
  li_stop : w_stop w = SFake;
  li_tc : sp_timeout_call (w_sp w) = Some s0;
  li_succ : sp_success (w_sp w) = None;
  li_fail : sp_failure (w_sp w) = None;
  li_nodup : NoDup (map dc_seq (queue (w_r w)));
  li_seq : Forall (fun c => Nat.eqb (dc_seq c) s0 = is_timeout (dc_act c)) (queue (w_r w));
  li_tok : Forall (fun c => is_timeout (dc_act c) = true \/ not_timeout_tok (tok_of (dc_act c)) = true)
                  (queue (w_r w));
  li_crasher : exists c, In c (queue (w_r w)) /\ crasher (dc_act c) = true
}.

(* what the loop leaves untouched *)
Definition same_env (w w' : world) : Prop :=
  w_sig w' = w_sig w /\ w_flag w' = w_flag w /\ w_stop w' = w_stop w /\ w_reentry w' = w_reentry w
  /\ sp_junk (w_sp w') = sp_junk (w_sp w) /\ sp_saved (w_sp w') = sp_saved (w_sp w)
  /\ readers (w_r w') = readers (w_r w) /\ hooks (w_r w') = hooks (w_r w)
  /\ really_stopped (w_r w') = really_stopped (w_r w).

Record LoopEnd (w w' : world) (c : dcall action) : Prop := {
  le_stopped : running (w_r w') = false;
  le_in : In c (queue (w_r w));
  le_crasher : crasher (dc_act c) = true;
  le_first : forall c', In c' (queue (w_r w)) -> crasher (dc_act c') = true -> dc_time c <= dc_time c';
  le_result : get_result (w_sp w') = act_result (dc_act c);
  le_perm : Permutation (w_ran w' ++ qtoks (queue (w_r w'))) (w_ran w ++ qtoks (queue (w_r w)));
  le_env : same_env w w'
}.

Lemma loop_not_running fuel w :
  running (w_r w) = false -> loop w_r set_r exec_call fuel w = (LDone, w).
Proof. intros H. destruct fuel; simpl; rewrite H; reflexivity. Qed.

Lemma loop_spec s0 : forall fuel w, LI s0 w -> length (queue (w_r w)) <= fuel ->
  exists w' c, loop w_r set_r exec_call fuel w = (LDone, w') /\ LoopEnd w w' c.
Proof.
  induction fuel as [|f IH]; intros w L Hlen.
  - destruct (li_crasher _ _ L) as [c [Hc _]]. destruct (queue (w_r w)); [destruct Hc|simpl in Hlen; lia].
  - destruct (li_crasher _ _ L) as [c0 [Hc0 Hcr0]].
    assert (Hq : queue (w_r w) <> []) by (intro E; rewrite E in Hc0; destruct Hc0).
    destruct (pop_next_some (w_r w) Hq) as [c [r' Hpop]].
    destruct (pop_next_spec _ _ _ Hpop) as (Hin & Hmin & Hq' & Hrun & Hrd & Hhk & Hrs & _).
    cbn [loop]. rewrite (li_running _ _ L). cbn [negb]. rewrite Hpop.
    pose proof (remove_seq_perm _ _ (li_nodup _ _ L) Hin) as Hperm.
    pose proof (remove_seq_length_lt _ _ Hin) as Hlt.
    destruct L as [Lrun Lspin Lstop Ltc Lsucc Lfail Lnd Lseq Ltok _].
    destruct w as [r st sg fl sp ran re]. destruct sp as [su fa jk spin tc sv].
    cbn [w_r w_stop w_sp w_sig w_flag w_ran w_reentry sp_success sp_failure sp_junk sp_spinning
         sp_timeout_call sp_saved] in *.
    subst st spin tc su fa.
    assert (Htokc : is_timeout (dc_act c) = true \/ not_timeout_tok (tok_of (dc_act c)) = true).
    { eapply Forall_forall in Ltok; eauto. }
    assert (Hseqc : Nat.eqb (dc_seq c) s0 = is_timeout (dc_act c)).
    { eapply Forall_forall in Lseq; eauto. }
    unfold exec_call. destruct (dc_act c) as [|o|  |t|T' f'] eqn:Eact.
    + (* the timeout call *)
      eexists. exists c. split.
      * apply loop_not_running.
        unfold timed_out, stop_reactor, set_r, set_sp. cbn. reflexivity.
      * unfold timed_out, stop_reactor, set_r, set_sp. cbn.
        constructor; cbn; auto.
        -- rewrite Eact; reflexivity.
        -- rewrite Eact; reflexivity.
        -- rewrite Hq'. apply Permutation_app_head.
           eapply qtoks_pop_zero; [exact Hperm|]. rewrite Eact. reflexivity.
        -- unfold same_env; cbn. repeat split; auto.
    + (* the function's Deferred fires *)
      eexists. exists c. split.
      * apply loop_not_running.
        unfold stop_reactor, got, cancel_timeout, log_ran, set_r, set_sp, set_ran. cbn.
        destruct o; cbn; reflexivity.
      * unfold stop_reactor, got, cancel_timeout, log_ran, set_r, set_sp, set_ran. cbn.
        destruct o as [v|e]; cbn.
        -- constructor; cbn; auto.
           ++ rewrite Eact; reflexivity.
           ++ rewrite Eact; reflexivity.
           ++ rewrite Hq'. rewrite qtoks_remove_timeout by (apply Forall_remove_seq; exact Lseq).
              eapply qtoks_pop_tok; [exact Hperm|rewrite Eact; reflexivity|reflexivity].
           ++ unfold same_env; cbn. repeat split; auto.
        -- constructor; cbn; auto.
           ++ rewrite Eact; reflexivity.
           ++ rewrite Eact; reflexivity.
           ++ rewrite Hq'. rewrite qtoks_remove_timeout by (apply Forall_remove_seq; exact Lseq).
              eapply qtoks_pop_tok; [exact Hperm|rewrite Eact; reflexivity|reflexivity].
           ++ unfold same_env; cbn. repeat split; auto.
    + (* a stop request *)
      eexists. exists c. split.
      * apply loop_not_running. unfold reactor_stop, log_ran, set_r, set_ran. cbn. reflexivity.
      * unfold reactor_stop, log_ran, set_r, set_ran. cbn.
        constructor; cbn; auto.
        -- rewrite Eact; reflexivity.
        -- rewrite Eact; reflexivity.
        -- rewrite Hq'. eapply qtoks_pop_tok; [exact Hperm|rewrite Eact; reflexivity|reflexivity].
        -- unfold same_env; cbn. repeat split; auto.
    + (* one of the function's idle calls: the loop goes on *)
      assert (Ht : not_timeout_tok t = true) by (destruct Htokc as [H|H]; [discriminate|exact H]).
      set (w1 := log_ran t (set_r r' (mkW r SFake sg fl (mkSp None None jk true (Some s0) sv) ran re))).
      assert (L1 : LI s0 w1).
      { unfold w1, log_ran, set_r, set_ran. constructor; cbn.
        - congruence.
        - reflexivity.
        - reflexivity.
        - reflexivity.
        - reflexivity.
        - reflexivity.
        - rewrite Hq'. apply remove_seq_nodup. exact Lnd.
        - rewrite Hq'. apply Forall_remove_seq. exact Lseq.
        - rewrite Hq'. apply Forall_remove_seq. exact Ltok.
        - exists c0. split; [|exact Hcr0]. rewrite Hq'. apply remove_seq_keeps; [exact Hc0|].
          intro E. assert (c0 = c) by (eapply nodup_seq_inj; eauto). subst c0.
          rewrite Eact in Hcr0. discriminate. }
      assert (Hlen1 : length (queue (w_r w1)) <= f).
      { unfold w1, log_ran, set_r, set_ran. cbn. rewrite Hq'. lia. }
      destruct (IH w1 L1 Hlen1) as [w' [c' [Hloop E]]].
      exists w', c'. split; [exact Hloop|].
      destruct E as [E1 E2 E3 E4 E5 E6 E7].
      unfold w1, log_ran, set_r, set_ran in E2, E4, E6, E7. cbn in E2, E4, E6, E7. rewrite Hq' in *.
      constructor; cbn; auto.
      * apply remove_seq_in in E2 as [E2 _]. exact E2.
      * intros c'' Hc'' Hcr''. apply E4; [|exact Hcr''].
        apply remove_seq_keeps; [exact Hc''|]. intro E.
        assert (c'' = c) by (eapply nodup_seq_inj; eauto). subst c''. rewrite Eact in Hcr''. discriminate.
      * rewrite E6. eapply qtoks_pop_tok; [exact Hperm|rewrite Eact; reflexivity|exact Ht].
      * unfold same_env in *. cbn in *. rewrite Hrd, Hhk, Hrs in E7. exact E7.
    + (* the startup hook is never a delayed call *)
      destruct Htokc as [H|H]; discriminate.
Qed.

(* ------------------------------------------------------------------ *)
(* Part 3: one run on an idle reactor                                   *)
(* ------------------------------------------------------------------ *)
Lemma spinner_iterations_0 : spinner_iterations = 0.
Proof. reflexivity. Qed.

(* what reactor.run() clobbers is among what Spinner preserves (table obligation) *)
Lemma reactor_signals_preserved : forall s, In s reactor_signals -> In s preserved_signals.
Proof.
  intros s H. apply (proj1 (forallb_forall (fun s => existsb (Nat.eqb s) preserved_signals) reactor_signals)
                           eq_refl) in H.
  apply existsb_exists in H as [x [Hx E]]. apply Nat.eqb_eq in E. subst. exact Hx.
Qed.

Fixpoint extras_calls (n s i : nat) (ds : list time) : list (dcall action) :=
  match ds with
  | [] => []
  | d :: r => mkCall (n + d) s (ANoop (tok_extra i)) :: extras_calls n (S s) (S i) r
  end.

Lemma schedule_extras_spec ds : forall i n s q hk rd rn rs orc st sg fl sp ran re,
  schedule_extras i ds (mkW (mkReactor n s q hk rd rn rs orc) st sg fl sp ran re)
  = mkW (mkReactor n (s + length ds) (q ++ extras_calls n s i ds) hk rd rn rs orc) st sg fl sp ran re.
Proof.
  induction ds as [|d r IH]; intros; cbn [schedule_extras extras_calls length].
  - rewrite Nat.add_0_r, app_nil_r. reflexivity.
  - unfold later, call_later, set_r. cbn. rewrite IH. rewrite <- app_assoc. cbn [app].
    rewrite Nat.add_succ_r. reflexivity.
Qed.

Lemma add_sels_spec k : forall j n s q hk rd rn rs orc st sg fl sp ran re,
  add_sels j k (mkW (mkReactor n s q hk rd rn rs orc) st sg fl sp ran re)
  = mkW (mkReactor n s q hk (rd ++ map tok_sel (seq j k)) rn rs orc) st sg fl sp ran re.
Proof.
  induction k as [|k IH]; intros; cbn [add_sels seq map].
  - rewrite app_nil_r. reflexivity.
  - unfold add_reader, set_readers, set_r. cbn. rewrite IH. rewrite <- app_assoc. reflexivity.
Qed.

Lemma extras_seqs ds : forall n s i, map dc_seq (extras_calls n s i ds) = seq s (length ds).
Proof. induction ds as [|d r IH]; intros; simpl; [reflexivity|]. rewrite IH. reflexivity. Qed.

Lemma extras_acts ds : forall n s i c, In c (extras_calls n s i ds) -> exists j, dc_act c = ANoop (tok_extra j).
Proof.
  induction ds as [|d r IH]; intros n s i c H; [destruct H|]. destruct H as [<-|H]; [eexists; reflexivity|].
  eapply IH; eauto.
Qed.

Lemma qtoks_extras ds : forall n s i, qtoks (extras_calls n s i ds) = map tok_extra (seq i (length ds)).
Proof.
  induction ds as [|d r IH]; intros; [reflexivity|]. cbn [extras_calls length seq map].
  rewrite qtoks_cons. cbn [dc_act tok_of]. rewrite IH. reflexivity.
Qed.

(* the function's own part of run_function, before what it returns is looked at *)
Definition fn_prefix (inner : world -> res value exc * world) (f : fn) (w : world) : world :=
  let w := schedule_extras 0 (f_extras f) w in
  let w := add_sels 0 (f_sels f) w in
  let w := match f_stop f with Some s => later s AStopReq w | None => w end in
  let w := match f_setsig f with Some (s, h) => set_sig (setsig s h (w_sig w)) w | None => w end in
  let w := if f_reenter f
           then let '(r, w') := inner w in set_reentry (Some (is_reentry r)) w'
           else w in
  if f_stop_now f then reactor_stop w else w.

Lemma run_function_eq inner f w :
  run_function inner f w =
  match f_shape f with
  | Sync _ o => stop_reactor (got o (fn_prefix inner f w))
  | Later t o => later t (AFire o) (fn_prefix inner f w)
  | Never => fn_prefix inner f w
  end.
Proof. reflexivity. Qed.

(* C15_reentry at the level of the model's functions *)
Lemma guarded_refuses body w : w_flag w = true -> guarded body w = (Raised EReentry, w).
Proof. intros H. unfold guarded. rewrite H. reflexivity. Qed.

Definition stop_calls (n s : nat) (f : fn) : list (dcall action) :=
  match f_stop f with Some d => [mkCall (n + d) s AStopReq] | None => [] end.
Definition sig_after_fn (f : fn) (sg : sigtab) : sigtab :=
  match f_setsig f with Some (s, h) => setsig s h sg | None => sg end.

Lemma fn_prefix_spec iters f n s q orc sg sp ran re :
  fn_prefix (inner_run iters) f (mkW (mkReactor n s q [] [] true false orc) SFake sg true sp ran re)
  = mkW (mkReactor n (s + length (f_extras f) + length (stop_calls n (s + length (f_extras f)) f))
                   (q ++ extras_calls n s 0 (f_extras f) ++ stop_calls n (s + length (f_extras f)) f)
                   [] (map tok_sel (seq 0 (f_sels f))) (negb (f_stop_now f)) false orc)
        SFake (sig_after_fn f sg) true sp ran (if f_reenter f then Some true else re).
Proof.
  unfold fn_prefix. rewrite schedule_extras_spec, add_sels_spec. cbn [app].
  unfold stop_calls, sig_after_fn.
  destruct (f_stop f) as [d|]; destruct (f_setsig f) as [[a h]|]; destruct (f_reenter f); destruct (f_stop_now f);
    unfold later, call_later, set_r, set_sig, set_reentry, reactor_stop, inner_run;
    cbn; rewrite ?guarded_refuses by reflexivity; cbn;
    rewrite <- ?app_assoc, ?app_nil_r, ?Nat.add_0_r, ?Nat.add_1_r; reflexivity.
Qed.

Definition fire_calls (n s : nat) (f : fn) : list (dcall action) :=
  match f_shape f with Later t o => [mkCall (n + t) s (AFire o)] | _ => [] end.

(* everything in the reactor's queue once the function has returned (nothing cancelled yet) *)
Definition Q0 (n s : nat) (T : time) (f : fn) : list (dcall action) :=
  let s1 := S s + length (f_extras f) in
  mkCall (n + T) s ATimeout
  :: extras_calls n (S s) 0 (f_extras f)
  ++ stop_calls n s1 f
  ++ fire_calls n (s1 + length (stop_calls n s1 f)) f.

Local Arguments Q0 : simpl never.

Lemma Q0_length n s T f : length (Q0 n s T f) <= length (f_extras f) + 3.
Proof.
  unfold Q0, stop_calls, fire_calls. cbn [length]. rewrite !app_length.
  assert (length (extras_calls n (S s) 0 (f_extras f)) = length (f_extras f)) as ->.
  { rewrite <- (map_length dc_seq), extras_seqs, seq_length. reflexivity. }
  destruct (f_stop f), (f_shape f); simpl; lia.
Qed.

Lemma Q0_seqs n s T f : map dc_seq (Q0 n s T f) = seq s (length (Q0 n s T f)).
Proof.
  unfold Q0. cbn [map dc_seq length seq]. f_equal.
  rewrite !map_app, !app_length, extras_seqs.
  assert (length (extras_calls n (S s) 0 (f_extras f)) = length (f_extras f)) as ->.
  { rewrite <- (map_length dc_seq), extras_seqs, seq_length. reflexivity. }
  rewrite seq_app. f_equal. rewrite seq_app. unfold stop_calls, fire_calls.
  destruct (f_stop f), (f_shape f); simpl; rewrite ?Nat.add_0_r, ?Nat.add_1_r; reflexivity.
Qed.

Lemma Q0_nodup n s T f : NoDup (map dc_seq (Q0 n s T f)).
Proof. rewrite Q0_seqs. apply seq_NoDup. Qed.

Lemma Q0_tail_seq n s T f c :
  In c (tl (Q0 n s T f)) -> s < dc_seq c /\ is_timeout (dc_act c) = false
                            /\ not_timeout_tok (tok_of (dc_act c)) = true.
Proof.
  intros H. split.
  - assert (In (dc_seq c) (tl (map dc_seq (Q0 n s T f)))) as Hs.
    { unfold Q0 in *. cbn [map tl] in *. apply in_map. exact H. }
    rewrite Q0_seqs in Hs. unfold Q0 in Hs. cbn [length seq tl] in Hs. apply in_seq in Hs. lia.
  - unfold Q0 in H. cbn [tl] in H. apply in_app_or in H as [H|H].
    + apply extras_acts in H as [j ->]. split; reflexivity.
    + apply in_app_or in H as [H|H].
      * unfold stop_calls in H. destruct (f_stop f); [|destruct H]. destruct H as [<-|[]]. split; reflexivity.
      * unfold fire_calls in H. destruct (f_shape f) as [? ?|t o|]; [destruct H| |destruct H].
        destruct H as [<-|[]]. split; reflexivity.
Qed.

Lemma Q0_seq_inv n s T f :
  Forall (fun c => Nat.eqb (dc_seq c) s = is_timeout (dc_act c)) (Q0 n s T f).
Proof.
  apply Forall_forall. intros c H. change (Q0 n s T f) with (mkCall (n + T) s ATimeout :: tl (Q0 n s T f)) in H.
  destruct H as [<-|H]; [simpl; apply Nat.eqb_refl|].
  apply Q0_tail_seq in H as (H1 & H2 & _). rewrite H2. apply Nat.eqb_neq. lia.
Qed.

Lemma Q0_tok_inv n s T f :
  Forall (fun c => is_timeout (dc_act c) = true \/ not_timeout_tok (tok_of (dc_act c)) = true) (Q0 n s T f).
Proof.
  apply Forall_forall. intros c H. change (Q0 n s T f) with (mkCall (n + T) s ATimeout :: tl (Q0 n s T f)) in H.
  destruct H as [<-|H]; [left; reflexivity|]. apply Q0_tail_seq in H as (_ & _ & H). right; exact H.
Qed.

Lemma Q0_toks n s T f :
  qtoks (Q0 n s T f) ++ map tok_sel (seq 0 (f_sels f)) = sched_tokens f.
Proof.
  unfold Q0, sched_tokens. rewrite qtoks_cons. cbn [dc_act tok_of not_timeout_tok tok_timeout Nat.eqb negb].
  rewrite !qtoks_app, qtoks_extras, <- !app_assoc. f_equal. f_equal.
  - unfold stop_calls. destruct (f_stop f); reflexivity.
  - f_equal. unfold fire_calls. destruct (f_shape f); reflexivity.
Qed.

(* the crashing calls in the queue are exactly the events the statement speaks of *)
Lemma crasher_event n s T f c :
  In c (Q0 n s T f) -> crasher (dc_act c) = true ->
  exists t, dc_time c = n + t /\ In (t, act_result (dc_act c)) (events T f).
Proof.
  unfold Q0, events. intros [<-|H] Hc.
  - exists T. split; [reflexivity|]. left; reflexivity.
  - apply in_app_or in H as [H|H].
    + apply extras_acts in H as [j E]. rewrite E in Hc. discriminate.
    + apply in_app_or in H as [H|H].
      * unfold stop_calls in H. destruct (f_stop f) as [d|]; [|destruct H]. destruct H as [<-|[]].
        exists d. split; [reflexivity|]. right. apply in_or_app. right. left; reflexivity.
      * unfold fire_calls in H. destruct (f_shape f) as [? ?| t o |]; [destruct H| |destruct H].
        destruct H as [<-|[]].
        exists t. split; [reflexivity|]. right. apply in_or_app. left. left; reflexivity.
Qed.

Lemma event_crasher n s T f ev :
  In ev (events T f) -> exists c, In c (Q0 n s T f) /\ crasher (dc_act c) = true /\ dc_time c = n + fst ev.
Proof.
  unfold Q0, events. intros [<-|H].
  - eexists. split; [left; reflexivity|]. split; reflexivity.
  - apply in_app_or in H as [H|H].
    + destruct (f_shape f) as [? ?| t o |] eqn:E; [destruct H| |destruct H]. destruct H as [<-|[]].
      eexists. split; [right; apply in_or_app; right; apply in_or_app; right; unfold fire_calls; rewrite E;
                       left; reflexivity|]. split; reflexivity.
    + destruct (f_stop f) as [d|] eqn:E; [|destruct H]. destruct H as [<-|[]].
      eexists. split; [right; apply in_or_app; right; apply in_or_app; left; unfold stop_calls; rewrite E;
                       left; reflexivity|]. split; reflexivity.
Qed.

(* the world in which the startup hook runs the function *)
Definition wB (n s : nat) (T : time) (orc : list nat) (sg saved : sigtab) (ran : list nat) (re : option bool) : world :=
  mkW (mkReactor n (S s) [mkCall (n + T) s ATimeout] [] [] true false orc) SFake sg true
      (mkSp None None [] true (Some s) saved) ran re.

Record AfterLoop (T : time) (f : fn) (n s : nat) (sg saved : sigtab) (ran : list nat) (re : option bool)
       (wL : world) : Prop := {
  al_stopped : running (w_r wL) = false;
  al_allowed : Allowed T f (get_result (w_sp wL));
  al_perm : Permutation (w_ran wL ++ qtoks (queue (w_r wL))) (ran ++ qtoks (Q0 n s T f));
  al_sig : w_sig wL = sig_after_fn f sg;
  al_flag : w_flag wL = true;
  al_stop : w_stop wL = SFake;
  al_reentry : w_reentry wL = (if f_reenter f then Some true else re);
  al_junk : sp_junk (w_sp wL) = [];
  al_saved : sp_saved (w_sp wL) = saved;
  al_readers : readers (w_r wL) = map tok_sel (seq 0 (f_sels f));
  al_hooks : hooks (w_r wL) = [];
  al_rs : really_stopped (w_r wL) = false
}.

Lemma async_world iters T f n s orc sg saved ran re :
  (forall h o, f_shape f <> Sync h o) ->
  exists s3,
    run_function (inner_run iters) f (wB n s T orc sg saved ran re)
    = mkW (mkReactor n s3 (Q0 n s T f) [] (map tok_sel (seq 0 (f_sels f))) (negb (f_stop_now f)) false orc)
          SFake (sig_after_fn f sg) true (mkSp None None [] true (Some s) saved) ran
          (if f_reenter f then Some true else re).
Proof.
  intros Hsh. rewrite run_function_eq. unfold wB. rewrite fn_prefix_spec. unfold Q0, fire_calls.
  destruct (f_shape f) as [h o|t o|].
  - exfalso. eapply Hsh; reflexivity.
  - eexists. unfold later, call_later, set_r. cbn. rewrite <- !app_assoc. reflexivity.
  - eexists. rewrite app_nil_r. reflexivity.
Qed.

Lemma hook_and_loop T f n s orc sg saved ran re fuel :
  length (f_extras f) + 3 <= fuel ->
  exists wL,
    loop w_r set_r exec_call fuel
         (run_function (inner_run spinner_iterations) f (wB n s T orc sg saved ran re)) = (LDone, wL)
    /\ AfterLoop T f n s sg saved ran re wL.
Proof.
  intros Hfuel. destruct (f_shape f) as [h o|t o|] eqn:Esh.
  - (* a synchronous result: the callbacks crash the reactor from the startup hook *)
    rewrite run_function_eq, Esh. unfold wB. rewrite fn_prefix_spec.
    assert (EQ : [mkCall (n + T) s ATimeout] ++ extras_calls n (S s) 0 (f_extras f)
                 ++ stop_calls n (S s + length (f_extras f)) f = Q0 n s T f).
    { unfold Q0, fire_calls. rewrite Esh, app_nil_r. reflexivity. }
    rewrite EQ.
    eexists. split.
    + apply loop_not_running. unfold stop_reactor, got, cancel_timeout, set_r, set_sp. cbn.
      destruct o; cbn; reflexivity.
    + unfold stop_reactor, got, cancel_timeout, set_r, set_sp. cbn.
      destruct o as [v|e]; cbn; (constructor; cbn; auto;
        [unfold Allowed; rewrite Esh; reflexivity
        |rewrite qtoks_remove_timeout by apply Q0_seq_inv; reflexivity]).
  - (* a Deferred *)
    destruct (async_world spinner_iterations T f n s orc sg saved ran re) as [s3 ->];
      [intros; rewrite Esh; discriminate|].
    destruct (f_stop_now f) eqn:Enow; cbn [negb].
    + eexists. split; [apply loop_not_running; reflexivity|].
      constructor; cbn; auto. unfold Allowed. rewrite Esh, Enow. reflexivity.
    + match goal with |- exists wL, loop _ _ _ _ ?w = _ /\ _ => set (wF := w) end.
      assert (L : LI s wF).
      { unfold wF. constructor; cbn; auto.
        - apply Q0_nodup.
        - apply Q0_seq_inv.
        - apply Q0_tok_inv.
        - exists (mkCall (n + T) s ATimeout). split; [left; reflexivity|reflexivity]. }
      destruct (loop_spec s fuel wF L) as [wL [c [Hloop E]]].
      { unfold wF; cbn. pose proof (Q0_length n s T f). lia. }
      exists wL. split; [exact Hloop|].
      destruct E as [E1 E2 E3 E4 E5 E6 E7]. unfold wF in *. cbn in E2, E4, E6, E7.
      destruct E7 as (F1 & F2 & F3 & F4 & F5 & F6 & F7 & F8 & F9). cbn in *.
      constructor; auto.
      rewrite E5. unfold Allowed. rewrite Esh, Enow.
      destruct (crasher_event _ _ _ _ _ E2 E3) as [tc [Htc Hev]].
      exists tc. split; [exact Hev|]. intros ev Hin.
      destruct (event_crasher n s T f ev Hin) as [c' [Hc' [Hcr' Ht']]].
      specialize (E4 c' Hc' Hcr'). lia.
  - destruct (async_world spinner_iterations T f n s orc sg saved ran re) as [s3 ->];
      [intros; rewrite Esh; discriminate|].
    destruct (f_stop_now f) eqn:Enow; cbn [negb].
    + eexists. split; [apply loop_not_running; reflexivity|].
      constructor; cbn; auto. unfold Allowed. rewrite Esh, Enow. reflexivity.
    + match goal with |- exists wL, loop _ _ _ _ ?w = _ /\ _ => set (wF := w) end.
      assert (L : LI s wF).
      { unfold wF. constructor; cbn; auto.
        - apply Q0_nodup.
        - apply Q0_seq_inv.
        - apply Q0_tok_inv.
        - exists (mkCall (n + T) s ATimeout). split; [left; reflexivity|reflexivity]. }
      destruct (loop_spec s fuel wF L) as [wL [c [Hloop E]]].
      { unfold wF; cbn. pose proof (Q0_length n s T f). lia. }
      exists wL. split; [exact Hloop|].
      destruct E as [E1 E2 E3 E4 E5 E6 E7]. unfold wF in *. cbn in E2, E4, E6, E7.
      destruct E7 as (F1 & F2 & F3 & F4 & F5 & F6 & F7 & F8 & F9). cbn in *.
      constructor; auto.
      rewrite E5. unfold Allowed. rewrite Esh, Enow.
      destruct (crasher_event _ _ _ _ _ E2 E3) as [tc [Htc Hev]].
      exists tc. split; [exact Hev|]. intros ev Hin.
      destruct (event_crasher n s T f ev Hin) as [c' [Hc' [Hcr' Ht']]].
      specialize (E4 c' Hc' Hcr'). lia.
Qed.

(* ---- signals ---- *)
Lemma getsig_setsig s s' h t : getsig s (setsig s' h t) = if Nat.eqb s' s then h else getsig s t.
Proof. reflexivity. Qed.

Lemma restore_spec L : forall t0 t1 s,
  getsig s (fold_left (fun t sh => setsig (fst sh) (snd sh) t) (map (fun k => (k, getsig k t0)) L) t1)
  = if existsb (Nat.eqb s) L then getsig s t0 else getsig s t1.
Proof.
  induction L as [|k L IH]; intros; [reflexivity|]. cbn [map fold_left existsb fst snd]. rewrite IH.
  destruct (existsb (Nat.eqb s) L); [rewrite orb_true_r; reflexivity|]. rewrite orb_false_r.
  rewrite getsig_setsig. rewrite (Nat.eqb_sym s k). destruct (Nat.eqb_spec k s); [subst; reflexivity|reflexivity].
Qed.

Lemma existsb_in s L : In s L -> existsb (Nat.eqb s) L = true.
Proof. intros H. apply existsb_exists. exists s. split; [exact H|apply Nat.eqb_refl]. Qed.

(* ---- _clean ---- *)
Lemma cancel_all_spec dcs : forall n s q hk rd rn rs orc st sg fl sp ran re,
  fold_left (fun w c => set_r (cancel (dc_seq c) (w_r w)) w) dcs
            (mkW (mkReactor n s q hk rd rn rs orc) st sg fl sp ran re)
  = mkW (mkReactor n s (fold_left (fun q (c : dcall action) => remove_seq (dc_seq c) q) dcs q) hk rd rn rs orc)
        st sg fl sp ran re.
Proof. induction dcs as [|c r IH]; intros; [reflexivity|]. cbn [fold_left]. unfold cancel, set_queue, set_r. cbn. apply IH. Qed.

Lemma cancel_all_empty (dcs : list (dcall action)) : forall q : list (dcall action),
  (forall x, In x q -> exists c, In c dcs /\ dc_seq c = dc_seq x) ->
  fold_left (fun q (c : dcall action) => remove_seq (dc_seq c) q) dcs q = [].
Proof.
  induction dcs as [|c r IH]; intros q H.
  - destruct q as [|x q]; [reflexivity|]. destruct (H x (or_introl eq_refl)) as [c [[] _]].
  - cbn [fold_left]. apply IH. intros x Hx. apply remove_seq_in in Hx as [Hx Hne].
    destruct (H x Hx) as [c' [[<-|Hc'] E]]; [congruence|]. exists c'. split; assumption.
Qed.

Lemma filter_sels j k : filter not_timeout_tok (map tok_sel (seq j k)) = map tok_sel (seq j k).
Proof. revert j; induction k as [|k IH]; intros; [reflexivity|]. cbn [seq map filter]. rewrite IH. reflexivity. Qed.

(* ---- the idle state between runs ---- *)
Record idle (w : world) : Prop := {
  id_running : running (w_r w) = false;
  id_queue : queue (w_r w) = [];
  id_readers : readers (w_r w) = [];
  id_hooks : hooks (w_r w) = [];
  id_rs : really_stopped (w_r w) = false;
  id_stop : w_stop w = SReal;
  id_flag : w_flag w = false;
  id_saved : sp_saved (w_sp w) = []
}.

Lemma run_body_idle T f n s orc sg su fa spin tc ran re :
  run_body (inner_run spinner_iterations) spinner_iterations T f
           (mkW (mkReactor n s [] [] [] false false orc) SReal sg true (mkSp su fa [] spin tc []) ran re)
  = let saved := map (fun k => (k, getsig k sg)) preserved_signals in
    let sgR := fold_left (fun t k => setsig k h_reactor t) reactor_signals sg in
    let '(e, w) := loop w_r set_r exec_call (S (length (f_extras f) + 4))
                        (run_function (inner_run spinner_iterations) f (wB n s T orc sgR saved ran re)) in
    let w := restore_signals (set_stop SReal w) in
    match e with
    | LDone => (get_result (w_sp w), clean spinner_iterations w)
    | _ => (Raised EOther, w)
    end.
Proof. reflexivity. Qed.

Lemma run_fresh T f w : idle w -> sp_junk (w_sp w) = [] ->
  exists r w', run spinner_iterations T f w = (r, w')
    /\ idle w' /\ Allowed T f r
    /\ w_reentry w' = (if f_reenter f then Some true else w_reentry w)
    /\ Permutation (w_ran w' ++ filter not_timeout_tok (sp_junk (w_sp w'))) (w_ran w ++ sched_tokens f)
    /\ (forall s, In s preserved_signals -> getsig s (w_sig w') = getsig s (w_sig w)).
Proof.
  intros [I1 I2 I3 I4 I5 I6 I7 I8] Hj.
  destruct w as [r st sg fl sp ran re]. destruct r as [n s q hk rd rn rs orc]. destruct sp as [su fa jk spin tc sv].
  cbn in *. subst.
  unfold run, guarded. cbn [w_flag].
  change (set_flag true
            (mkW (mkReactor n s [] [] [] false false orc) SReal sg false (mkSp su fa [] spin tc []) ran re))
    with (mkW (mkReactor n s [] [] [] false false orc) SReal sg true (mkSp su fa [] spin tc []) ran re).
  rewrite run_body_idle. cbv zeta.
  destruct (hook_and_loop T f n s orc (fold_left (fun t k => setsig k h_reactor t) reactor_signals sg)
                          (map (fun k => (k, getsig k sg)) preserved_signals) ran re
                          (S (length (f_extras f) + 4))) as [wL [Hloop A]]; [lia|].
  rewrite Hloop. destruct A as [A1 A2 A3 A4 A5 A6 A7 A8 A9 A10 A11 A12].
  destruct wL as [rL stL sgL flL spL ranL reL]. destruct rL as [nL sL qL hkL rdL rnL rsL orcL].
  destruct spL as [suL faL jkL spinL tcL svL].
  cbn [w_r w_stop w_sig w_flag w_sp w_ran w_reentry sp_junk sp_saved running queue readers hooks really_stopped]
    in A1, A3, A4, A5, A6, A7, A8, A9, A10, A11, A12. subst.
  unfold clean. rewrite spinner_iterations_0. unfold Nat.iter. cbn [nat_rect].
  unfold restore_signals, set_stop, set_sp, set_sig, sp_set_saved.
  cbn [w_r w_stop w_sig w_flag w_sp w_ran w_reentry sp_success sp_failure sp_junk sp_spinning sp_timeout_call
       sp_saved queue].
  match goal with
  | |- context [fold_left (fun t sh => setsig (fst sh) (snd sh) t) ?l ?t0] =>
      assert (Hsig : forall k, In k preserved_signals ->
                getsig k (fold_left (fun t sh => setsig (fst sh) (snd sh) t) l t0) = getsig k sg)
        by (intros k Hk; rewrite restore_spec, (existsb_in _ _ Hk); reflexivity);
      set (sgF := fold_left (fun t sh => setsig (fst sh) (snd sh) t) l t0) in *; clearbody sgF
  end.
  rewrite cancel_all_spec.
  rewrite cancel_all_empty by (intros x Hx; exists x; split; [exact Hx|reflexivity]).
  unfold remove_all, set_readers, set_r, set_sp, sp_set_junk, set_flag. cbn.
  eexists; eexists. split; [reflexivity|]. cbn.
  split; [constructor; reflexivity|]. split; [exact A2|]. split; [reflexivity|]. split.
  - rewrite filter_app. fold (qtoks qL). rewrite filter_sels.
    rewrite app_assoc. rewrite A3. rewrite <- app_assoc. rewrite Q0_toks. reflexivity.
  - exact Hsig.
Qed.

(* C15_stale_junk: nothing at all happens *)
Lemma run_stale iters T f w : w_flag w = false -> sp_junk (w_sp w) <> [] ->
  run iters T f w = (Raised EStaleJunk, w).
Proof.
  intros Hf Hj. unfold run, guarded. rewrite Hf. unfold run_body. cbn [set_flag w_sp].
  destruct (sp_junk (w_sp w)) as [|x j]; [contradiction|].
  destruct w; cbn in *; subst; reflexivity.
Qed.

(* ------------------------------------------------------------------ *)
(* Part 4: booleans of the statement; histories                         *)
(* ------------------------------------------------------------------ *)
Lemma exc_eqb_spec a b : exc_eqb a b = true <-> a = b.
Proof.
  destruct a, b; simpl; split; intro H; try reflexivity; try discriminate.
  - apply Nat.eqb_eq in H; congruence.
  - injection H as ->; apply Nat.eqb_refl.
Qed.

Lemma result_eqb_spec a b : result_eqb a b = true <-> a = b.
Proof. apply res_eqb_spec; [apply Nat.eqb_eq|apply exc_eqb_spec]. Qed.

Lemma result_eqb_refl a : result_eqb a a = true.
Proof. apply result_eqb_spec; reflexivity. Qed.

Definition fold_min (a : time) (l : list (time * res value exc)) : time :=
  fold_right (fun ev m => Nat.min (fst ev) m) a l.

Lemma fold_min_spec (l : list (time * res value exc)) a :
  fold_min a l <= a /\ (forall ev, In ev l -> fold_min a l <= fst ev)
  /\ (fold_min a l = a \/ exists ev, In ev l /\ fst ev = fold_min a l).
Proof.
  induction l as [|e l IH].
  - split; [apply Nat.le_refl|]. split; [intros ev []|left; reflexivity].
  - destruct IH as (H1 & H2 & H3). change (fold_min a (e :: l)) with (Nat.min (fst e) (fold_min a l)).
    set (m := fold_min a l) in *.
    split; [etransitivity; [apply Nat.le_min_r|exact H1]|]. split.
    + intros ev [<-|H]; [apply Nat.le_min_l|]. etransitivity; [apply Nat.le_min_r|]. apply H2. exact H.
    + destruct (Nat.min_dec (fst e) m) as [E|E]; rewrite E.
      * right. exists e. split; [left|]; reflexivity.
      * destruct H3 as [H3|[ev [Hin Hev]]]; [left; exact H3|]. right. exists ev. split; [right|]; assumption.
Qed.

Lemma earliest_spec evs : evs <> [] ->
  (forall ev, In ev evs -> earliest evs <= fst ev) /\ (exists ev, In ev evs /\ fst ev = earliest evs).
Proof.
  destruct evs as [|e0 l]; [contradiction|]. intros _. unfold earliest. cbn [hd].
  destruct (fold_min_spec (e0 :: l) (fst e0)) as (H1 & H2 & H3). unfold fold_min in *. split; [exact H2|].
  destruct H3 as [H3|[ev [Hin Hev]]].
  - exists e0. split; [left; reflexivity|]. symmetry; exact H3.
  - exists ev. split; assumption.
Qed.

Lemma events_nonempty T f : events T f <> [].
Proof. unfold events. discriminate. Qed.

Lemma allowed_iff T f r : allowed T f r = true <-> Allowed T f r.
Proof.
  unfold allowed, Allowed. destruct (f_shape f) as [h o|t o|].
  - apply result_eqb_spec.
  - destruct (f_stop_now f); [apply result_eqb_spec|].
    destruct (earliest_spec (events T f) (events_nonempty T f)) as [Hle [ev0 [Hin0 Hev0]]]. split.
    + intros H. apply existsb_exists in H as [ev [Hin H]]. apply andb_true_iff in H as [H1 H2].
      apply Nat.eqb_eq in H1. apply result_eqb_spec in H2. exists (fst ev). split.
      * rewrite <- H2. destruct ev; exact Hin.
      * intros ev' Hin'. rewrite H1. apply Hle. exact Hin'.
    + intros [t' [Hin Hmin]]. apply existsb_exists. exists (t', r). split; [exact Hin|].
      cbn [fst snd]. rewrite result_eqb_refl, andb_true_r. apply Nat.eqb_eq.
      specialize (Hmin ev0 Hin0). specialize (Hle (t', r) Hin). cbn [fst] in Hle. lia.
  - destruct (f_stop_now f); [apply result_eqb_spec|].
    destruct (earliest_spec (events T f) (events_nonempty T f)) as [Hle [ev0 [Hin0 Hev0]]]. split.
    + intros H. apply existsb_exists in H as [ev [Hin H]]. apply andb_true_iff in H as [H1 H2].
      apply Nat.eqb_eq in H1. apply result_eqb_spec in H2. exists (fst ev). split.
      * rewrite <- H2. destruct ev; exact Hin.
      * intros ev' Hin'. rewrite H1. apply Hle. exact Hin'.
    + intros [t' [Hin Hmin]]. apply existsb_exists. exists (t', r). split; [exact Hin|].
      cbn [fst snd]. rewrite result_eqb_refl, andb_true_r. apply Nat.eqb_eq.
      specialize (Hmin ev0 Hin0). specialize (Hle (t', r) Hin). cbn [fst] in Hle. lia.
Qed.

Lemma perm_eqb_iff a b : perm_eqb a b = true <-> forall x, count a x = count b x.
Proof.
  unfold perm_eqb. split.
  - intros H x. destruct (in_dec Nat.eq_dec x (a ++ b)) as [Hin|Hn].
    + eapply forallb_forall in H; [|exact Hin]. apply Nat.eqb_eq in H. exact H.
    + unfold count. rewrite !(proj1 (count_occ_not_In Nat.eq_dec _ _)); [reflexivity| |];
        intro Hx; apply Hn; apply in_or_app; auto.
  - intros H. apply forallb_forall. intros x _. apply Nat.eqb_eq. apply H.
Qed.

Lemma perm_eqb_of_perm a b : Permutation a b -> perm_eqb a b = true.
Proof. intros H. apply perm_eqb_iff. intros x. apply Permutation_count_occ. exact H. Qed.

Lemma filter_perm {A} (f : A -> bool) l l' : Permutation l l' -> Permutation (filter f l) (filter f l').
Proof.
  induction 1; simpl.
  - reflexivity.
  - destruct (f x); [apply perm_skip|]; assumption.
  - destruct (f x), (f y); try reflexivity. apply perm_swap.
  - etransitivity; eassumption.
Qed.

Lemma sort_perm l : Permutation l (sort_toks l).
Proof. apply isort_perm. Qed.

Lemma sort_nil_iff l : sort_toks l = [] <-> l = [].
Proof.
  split; intros H; [|subst; reflexivity].
  pose proof (sort_perm l) as P. rewrite H in P. apply Permutation_nil. symmetry. exact P.
Qed.

(* the harness' preparations keep the reactor idle *)
Definition prepare (w : world) (rs : runspec) : world :=
  set_reentry None (set_ran [] (preinstall (r_pre rs) (if r_clear rs then clear_junk w else w))).

Lemma prepare_idle w rs : idle w -> idle (prepare w rs).
Proof.
  intros [I1 I2 I3 I4 I5 I6 I7 I8]. unfold prepare, preinstall, clear_junk.
  destruct (r_clear rs); constructor; cbn; assumption.
Qed.

Lemma prepare_junk w rs :
  sp_junk (w_sp (prepare w rs)) = if r_clear rs then [] else sp_junk (w_sp w).
Proof. unfold prepare, preinstall, clear_junk. destruct (r_clear rs); reflexivity. Qed.

Lemma prepare_sigs w rs : wf_run rs ->
  map (fun s => getsig s (w_sig (prepare w rs))) reactor_signals = r_pre rs.
Proof.
  unfold wf_run, prepare, preinstall. cbn [w_sig set_reentry set_ran set_sig].
  generalize (w_sig (if r_clear rs then clear_junk w else w)). intros t.
  destruct (r_pre rs) as [|a [|b [|c [|d l]]]]; try discriminate. intros _. reflexivity.
Qed.

Lemma step_eq w rs :
  step w rs = let '(r, w') := run spinner_iterations (r_timeout rs) (r_fn rs) (prepare w rs) in (observe r w', w').
Proof. reflexivity. Qed.

Lemma idle_clean_obs w r : idle w -> let o := observe r w in
  o_running o = false /\ o_pending o = 0 /\ o_readers o = 0 /\ o_stop_ok o = true.
Proof.
  intros [I1 I2 I3 I4 I5 I6 I7 I8]. unfold observe. cbn. rewrite I1, I2, I3, I5, I6. repeat split.
Qed.

Lemma step_ok w rs : idle w -> wf_run rs ->
  let '(o, w') := step w rs in
  idle w'
  /\ Run_spec (if r_clear rs then [] else sort_toks (sp_junk (w_sp w))) rs o
  /\ o_junk o = sort_toks (sp_junk (w_sp w')).
Proof.
  intros Hid Hwf. rewrite step_eq.
  pose proof (prepare_idle w rs Hid) as Hid3. pose proof (prepare_junk w rs) as Hj3.
  pose proof (prepare_sigs w rs Hwf) as Hs3.
  assert (Hran3 : w_ran (prepare w rs) = []) by reflexivity.
  assert (Hre3 : w_reentry (prepare w rs) = None) by reflexivity.
  set (w3 := prepare w rs) in *.
  destruct (sp_junk (w_sp w3)) as [|x j] eqn:Ej.
  - (* no stale junk: the run happens *)
    destruct (run_fresh (r_timeout rs) (r_fn rs) w3 Hid3 Ej) as (r & w' & Hrun & Hid' & Hal & Hre & Hperm & Hsig).
    rewrite Hrun. split; [exact Hid'|]. split; [|reflexivity].
    assert (Est : (if r_clear rs then [] else sort_toks (sp_junk (w_sp w))) = []).
    { destruct (r_clear rs); [reflexivity|]. rewrite <- Hj3. reflexivity. }
    rewrite Est. destruct (idle_clean_obs w' r Hid') as (C1 & C2 & C3 & C4).
    split; [|split; [|split]].
    + unfold Clean. repeat split; auto. cbn [observe o_sigs]. rewrite <- Hs3.
      apply map_ext_in. intros s Hs. apply Hsig. apply reactor_signals_preserved. exact Hs.
    + exact Hal.
    + cbn [observe o_reentry]. rewrite Hre, Hre3. reflexivity.
    + intros t. cbn [observe o_ran o_junk]. apply Permutation_count_occ.
      rewrite Hran3 in Hperm. cbn [app] in Hperm. rewrite <- Hperm.
      apply Permutation_app; [symmetry; apply sort_perm|]. apply filter_perm. symmetry; apply sort_perm.
  - (* stale junk: refused, nothing happens *)
    rewrite (run_stale spinner_iterations (r_timeout rs) (r_fn rs) w3); [|apply Hid3|rewrite Ej; discriminate].
    split; [exact Hid3|]. split; [|reflexivity].
    assert (Est : (if r_clear rs then [] else sort_toks (sp_junk (w_sp w))) = sort_toks (x :: j)).
    { destruct (r_clear rs); [discriminate Hj3|]. rewrite <- Hj3. reflexivity. }
    rewrite Est. destruct (sort_toks (x :: j)) as [|y l] eqn:Esort.
    { apply (proj1 (sort_nil_iff (x :: j))) in Esort. discriminate Esort. }
    destruct (idle_clean_obs w3 (Raised EStaleJunk) Hid3) as (C1 & C2 & C3 & C4).
    split.
    + unfold Clean. repeat split; auto.
    + cbn [observe o_res o_junk o_ran o_reentry]. rewrite Ej, Esort, Hran3, Hre3. repeat split.
Qed.

(* ------------------------------------------------------------------ *)
(* Part 5: histories; the statement; the comparison                     *)
(* ------------------------------------------------------------------ *)
Lemma new_world_idle orc : idle (new_world orc).
Proof. constructor; reflexivity. Qed.

Lemma steps_ok rss : forall w, idle w -> Forall wf_run rss ->
  Runs_spec (sort_toks (sp_junk (w_sp w))) rss (steps w rss).
Proof.
  induction rss as [|rs rss IH]; intros w Hid Hwf; cbn [steps]; [exact I|].
  inversion Hwf as [|? ? Hrs Hrest]; subst.
  pose proof (step_ok w rs Hid Hrs) as H. destruct (step w rs) as [o w'].
  destruct H as (Hid' & Hrun & Hj). cbn [Runs_spec]. split; [exact Hrun|]. rewrite Hj. apply IH; assumption.
Qed.

Lemma model_meets_Spec i : wf i -> Spec i (model i).
Proof. intros H. unfold Spec, model. apply (steps_ok (i_runs i) (new_world (i_oracle i)) (new_world_idle _) H). Qed.

Lemma clean_okb_iff rs o : clean_okb rs o = true <-> Clean rs o.
Proof.
  unfold clean_okb, Clean. rewrite !andb_true_iff, negb_true_iff, !Nat.eqb_eq, (list_eqb_spec Nat.eqb Nat.eqb_eq).
  tauto.
Qed.

Lemma run_okb_iff stale rs o : run_okb stale rs o = true <-> Run_spec stale rs o.
Proof.
  unfold run_okb, Run_spec. rewrite andb_true_iff, clean_okb_iff. destruct stale as [|x l].
  - rewrite !andb_true_iff, allowed_iff, (option_eqb_spec Bool.eqb bool_eqb_spec), perm_eqb_iff. tauto.
  - rewrite !andb_true_iff, result_eqb_spec, !(list_eqb_spec Nat.eqb Nat.eqb_eq),
      (option_eqb_spec Bool.eqb bool_eqb_spec). tauto.
Qed.

Lemma runs_okb_iff rss : forall prev os, runs_okb prev rss os = true <-> Runs_spec prev rss os.
Proof.
  induction rss as [|rs rss IH]; intros prev [|o os]; cbn [runs_okb Runs_spec]; try tauto;
    try (split; [discriminate|contradiction]).
  rewrite andb_true_iff, run_okb_iff, IH. tauto.
Qed.

Lemma spec_okb_iff i o : spec_okb i o = true <-> Spec i o.
Proof. apply runs_okb_iff. Qed.

Lemma model_meets_spec i : wf i -> spec_okb i (model i) = true.
Proof. intros H. apply spec_okb_iff. apply model_meets_Spec. exact H. Qed.

Lemma robs_eqb_spec a b : robs_eqb a b = true <-> a = b.
Proof.
  destruct a as [a1 a2 a3 a4 a5 a6 a7 a8 a9], b as [b1 b2 b3 b4 b5 b6 b7 b8 b9]. unfold robs_eqb.
  cbn [o_res o_reentry o_ran o_junk o_running o_pending o_readers o_stop_ok o_sigs].
  rewrite !andb_true_iff, result_eqb_spec, (option_eqb_spec Bool.eqb bool_eqb_spec),
    !(list_eqb_spec Nat.eqb Nat.eqb_eq), !bool_eqb_spec, !Nat.eqb_eq.
  split.
  - intros [[[[[[[[-> ->] ->] ->] ->] ->] ->] ->] ->]. reflexivity.
  - intros H; injection H as -> -> -> -> -> -> -> -> ->. repeat split.
Qed.

Lemma obs_eqb_spec a b : obs_eqb a b = true <-> a = b.
Proof. apply list_eqb_spec. apply robs_eqb_spec. Qed.

(* ---- the per-clause theorems, on any idle (fresh or used) spinner ---- *)
Lemma result_as_timing T f w : idle w -> sp_junk (w_sp w) = [] ->
  Allowed T f (fst (run spinner_iterations T f w)).
Proof.
  intros Hid Hj. destruct (run_fresh T f w Hid Hj) as (r & w' & Hrun & _ & Hal & _). rewrite Hrun. exact Hal.
Qed.

(* the timing cases spelled out for a Deferred against the timeout alone *)
Lemma result_cases T f w t o : idle w -> sp_junk (w_sp w) = [] ->
  f_shape f = Later t o -> f_stop f = None -> f_stop_now f = false ->
  let r := fst (run spinner_iterations T f w) in
  (t < T -> r = result_of o) /\ (T < t -> r = Raised ETimeout)
  /\ (t = T -> r = result_of o \/ r = Raised ETimeout).
Proof.
  intros Hid Hj Hsh Hst Hnow. pose proof (result_as_timing T f w Hid Hj) as H.
  unfold Allowed, events in H. rewrite Hsh, Hst, Hnow in H. cbn [app] in H.
  destruct H as [t' [Hin Hmin]]. cbv zeta.
  pose proof (Hmin _ (or_introl eq_refl)) as H1. pose proof (Hmin _ (or_intror (or_introl eq_refl))) as H2.
  cbn [fst] in H1, H2.
  destruct Hin as [E|[E|[]]]; injection E as <- <-; repeat split; intros; try lia; auto.
Qed.

Lemma result_never T f w : idle w -> sp_junk (w_sp w) = [] ->
  f_shape f = Never -> f_stop f = None -> f_stop_now f = false ->
  fst (run spinner_iterations T f w) = Raised ETimeout.
Proof.
  intros Hid Hj Hsh Hst Hnow. pose proof (result_as_timing T f w Hid Hj) as H.
  unfold Allowed, events in H. rewrite Hsh, Hst, Hnow in H. cbn [app] in H.
  destruct H as [t' [[E|[]] _]]. injection E as _ <-. reflexivity.
Qed.

Lemma result_stopped_first T f w s : idle w -> sp_junk (w_sp w) = [] ->
  (forall h o, f_shape f <> Sync h o) -> f_stop f = Some s -> s < T ->
  (forall t o, f_shape f = Later t o -> s < t) ->
  fst (run spinner_iterations T f w) = Raised ENoResult.
Proof.
  intros Hid Hj Hsh Hst HsT Hlt. pose proof (result_as_timing T f w Hid Hj) as H.
  unfold Allowed, events in H. rewrite Hst in H.
  destruct (f_shape f) as [h o|t o|] eqn:E.
  - exfalso. eapply Hsh; reflexivity.
  - destruct (f_stop_now f); [exact H|]. cbn [app] in H. destruct H as [t' [Hin Hmin]].
    pose proof (Hmin (s, Raised ENoResult)) as H3. cbn [fst] in H3.
    specialize (Hlt t o eq_refl).
    destruct Hin as [E1|[E1|[E1|[]]]]; injection E1 as <- <-; try reflexivity;
      exfalso; assert (_ <= s) by (apply H3; right; right; left; reflexivity); lia.
  - destruct (f_stop_now f); [exact H|]. cbn [app] in H. destruct H as [t' [Hin Hmin]].
    pose proof (Hmin (s, Raised ENoResult)) as H3. cbn [fst] in H3.
    destruct Hin as [E1|[E1|[]]]; injection E1 as <- <-; try reflexivity;
      exfalso; assert (_ <= s) by (apply H3; right; left; reflexivity); lia.
Qed.

Lemma reentry_refused iters T f w : w_flag w = true -> run iters T f w = (Raised EReentry, w).
Proof. apply guarded_refuses. Qed.

Lemma reentry_from_function T f w : idle w -> sp_junk (w_sp w) = [] -> f_reenter f = true ->
  w_reentry (snd (run spinner_iterations T f w)) = Some true.
Proof.
  intros Hid Hj Hre. destruct (run_fresh T f w Hid Hj) as (r & w' & Hrun & _ & _ & H & _).
  rewrite Hrun. cbn [snd]. rewrite H, Hre. reflexivity.
Qed.

Lemma run_keeps_idle T f w : idle w -> idle (snd (run spinner_iterations T f w)).
Proof.
  intros Hid. destruct (sp_junk (w_sp w)) as [|x j] eqn:Ej.
  - destruct (run_fresh T f w Hid Ej) as (r & w' & Hrun & Hid' & _). rewrite Hrun. exact Hid'.
  - rewrite run_stale; [exact Hid|apply Hid|rewrite Ej; discriminate].
Qed.

Lemma junk_accounts T f w : idle w -> sp_junk (w_sp w) = [] ->
  let w' := snd (run spinner_iterations T f w) in
  Permutation (w_ran w' ++ filter not_timeout_tok (sp_junk (w_sp w'))) (w_ran w ++ sched_tokens f).
Proof.
  intros Hid Hj. destruct (run_fresh T f w Hid Hj) as (r & w' & Hrun & _ & _ & _ & H & _).
  rewrite Hrun. exact H.
Qed.

Lemma run_restores T f w : idle w ->
  let w' := snd (run spinner_iterations T f w) in
  w_stop w' = SReal /\ really_stopped (w_r w') = false
  /\ forall s, In s preserved_signals -> getsig s (w_sig w') = getsig s (w_sig w).
Proof.
  intros Hid. pose proof (run_keeps_idle T f w Hid) as Hid'. cbv zeta.
  split; [apply Hid'|]. split; [apply Hid'|].
  destruct (sp_junk (w_sp w)) as [|x j] eqn:Ej.
  - destruct (run_fresh T f w Hid Ej) as (r & w' & Hrun & _ & _ & _ & _ & H). rewrite Hrun. exact H.
  - rewrite run_stale; [reflexivity|apply Hid|rewrite Ej; discriminate].
Qed.

Lemma named_signals_preserved : In sig_int preserved_signals /\ In sig_term preserved_signals
                                /\ In sig_chld preserved_signals.
Proof. repeat split; apply reactor_signals_preserved; simpl; auto. Qed.

(* the world after a history *)
Fixpoint world_after (w : world) (rss : list runspec) : world :=
  match rss with [] => w | rs :: rest => world_after (snd (step w rs)) rest end.

Lemma world_after_idle rss : forall w, idle w -> Forall wf_run rss -> idle (world_after w rss).
Proof.
  induction rss as [|rs rss IH]; intros w Hid Hwf; [exact Hid|]. cbn [world_after].
  inversion Hwf as [|? ? Hrs Hrest]; subst. apply IH; [|exact Hrest].
  pose proof (step_ok w rs Hid Hrs) as H. destruct (step w rs) as [o w']. apply H.
Qed.

Lemma nth_run_like_first orc rss T f : Forall wf_run rss ->
  let w := clear_junk (world_after (new_world orc) rss) in
  Allowed T f (fst (run spinner_iterations T f w))
  /\ idle (snd (run spinner_iterations T f w))
  /\ (forall s, In s preserved_signals ->
        getsig s (w_sig (snd (run spinner_iterations T f w))) = getsig s (w_sig w)).
Proof.
  intros Hwf. cbv zeta.
  assert (Hid : idle (clear_junk (world_after (new_world orc) rss))).
  { pose proof (world_after_idle rss _ (new_world_idle orc) Hwf) as [I1 I2 I3 I4 I5 I6 I7 I8].
    constructor; assumption. }
  split; [apply result_as_timing; [exact Hid|reflexivity]|].
  split; [apply run_keeps_idle; exact Hid|]. apply run_restores. exact Hid.
Qed.
