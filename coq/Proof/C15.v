From TT Require Import Lib.Base Lib.Sort Model.Reactor Model.Spinner Gen.Spinnertabs Spec.C15 Corr.C15.
