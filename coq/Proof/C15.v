(* C15 - proofs about Model/Spinner.v over Model/Reactor.v: one run() of the model from a
   clean reactor meets the statement for EVERY function program, timeout, oracle and
   reactor mode (invariant over the event loop), hence every history of runs does. *)
From Coq Require Import Permutation.
From TT Require Import Lib.Base Lib.Sort Model.Reactor Model.Spinner Gen.Spinnertabs Spec.C15 Corr.C15 Proof.C15Spec.

Notation call := (dcall action).
Notation rtor := (reactor action).

(* ================= the delayed-call queue ================= *)
Lemma min_time_spec (q : list call) m : min_time q = Some m ->
  (exists c, In c q /\ dc_time c = m) /\ forall c, In c q -> m <= dc_time c.
Proof.
  revert m; induction q as [|c r IH]; simpl; intros m H; [discriminate|].
  injection H as <-. destruct (min_time r) as [m'|] eqn:E.
  - destruct (IH m' eq_refl) as [[c0 [Hin Ht]] Hle]. split.
    + destruct (Nat.min_spec (dc_time c) m') as [[_ ->]|[_ ->]].
      * exists c; split; [left|]; reflexivity.
      * exists c0; split; [right; exact Hin | exact Ht].
    + intros c' [->|Hc']; [lia|]. specialize (Hle c' Hc'). lia.
  - destruct r; [|simpl in E; discriminate]. split.
    + exists c; split; [left|]; reflexivity.
    + intros c' [->|[]]. lia.
Qed.

Lemma min_time_some (q : list call) : q <> [] -> exists m, min_time q = Some m.
Proof. destruct q; [congruence|]. intros _. simpl. eexists; reflexivity. Qed.

Lemma candidates_in (q : list call) c : In c (candidates q) ->
  In c q /\ forall c', In c' q -> dc_time c <= dc_time c'.
Proof.
  unfold candidates. destruct (min_time q) as [m|] eqn:E; [|intros []].
  intro H. apply filter_In in H as [Hin Ht]. apply Nat.eqb_eq in Ht.
  destruct (min_time_spec q m E) as [_ Hle]. split; [exact Hin|].
  intros c' Hc'. rewrite Ht. apply Hle; exact Hc'.
Qed.

Lemma candidates_ne (q : list call) : q <> [] -> candidates q <> [].
Proof.
  intro H. unfold candidates. destruct (min_time_some q H) as [m E]. rewrite E.
  destruct (min_time_spec q m E) as [[c [Hin Ht]] _].
  intro F. assert (Hc : In c (filter (fun c => Nat.eqb (dc_time c) m) q)).
  { apply filter_In; split; [exact Hin | apply Nat.eqb_eq; exact Ht]. }
  rewrite F in Hc. exact Hc.
Qed.

Lemma nth_mod_in {A} (l : list A) k d : l <> [] -> In (nth (k mod length l) l d) l.
Proof.
  intro H. apply nth_In. apply Nat.mod_upper_bound. destruct l; [congruence | simpl; discriminate].
Qed.

Lemma choose_in orc (cands : list call) c orc' : choose orc cands = Some (c, orc') -> In c cands.
Proof.
  unfold choose. destruct cands as [|c0 [|c1 r]]; [discriminate| |].
  - intro H; injection H as <- _. left; reflexivity.
  - destruct orc as [|k orc0]; intro H; injection H as <- _; [left; reflexivity|].
    exact (nth_mod_in (c0 :: c1 :: r) k c0 ltac:(discriminate)).
Qed.

Lemma choose_some orc (cands : list call) : cands <> [] -> exists c orc', choose orc cands = Some (c, orc').
Proof.
  unfold choose. destruct cands as [|c0 [|c1 r]]; [congruence| |]; intros _.
  - eexists; eexists; reflexivity.
  - destruct orc; eexists; eexists; reflexivity.
Qed.

Lemma pop_from_spec cands (r : rtor) c r' : pop_from cands r = Some (c, r') ->
  In c cands /\ exists nw orc',
    r' = mkReactor nw (nextseq r) (remove_seq (dc_seq c) (queue r)) (hooks r) (readers r) (running r)
                   (really_stopped r) orc'.
Proof.
  unfold pop_from. destruct (choose (oracle r) cands) as [[c0 orc']|] eqn:E; [|discriminate].
  intro H; injection H as <- <-. split; [eapply choose_in; exact E|].
  eexists; eexists; reflexivity.
Qed.

Lemma pop_from_some cands (r : rtor) : cands <> [] -> exists c r', pop_from cands r = Some (c, r').
Proof.
  intro H. unfold pop_from. destruct (choose_some (oracle r) cands H) as [c [orc' ->]].
  eexists; eexists; reflexivity.
Qed.

Lemma in_remove_seq s (q : list call) c : In c (remove_seq s q) <-> In c q /\ dc_seq c <> s.
Proof.
  unfold remove_seq. rewrite filter_In, negb_true_iff, Nat.eqb_neq. reflexivity.
Qed.

Lemma remove_seq_length s (q : list call) : length (remove_seq s q) <= length q.
Proof.
  unfold remove_seq. induction q as [|a r IH]; simpl; [lia|].
  destruct (negb (Nat.eqb (dc_seq a) s)); simpl; lia.
Qed.

Lemma remove_seq_length_lt (q : list call) c : In c q -> length (remove_seq (dc_seq c) q) < length q.
Proof.
  induction q as [|a r IH]; simpl; [intros []|]. intros [->|Hin].
  - rewrite Nat.eqb_refl. simpl. pose proof (remove_seq_length (dc_seq c) r) as H. unfold remove_seq in H.
    apply Nat.lt_succ_r. exact H.
  - specialize (IH Hin). unfold remove_seq in IH. destruct (negb (Nat.eqb (dc_seq a) (dc_seq c))); simpl.
    + apply -> Nat.succ_lt_mono. exact IH.
    + apply Nat.lt_lt_succ_r. exact IH.
Qed.

Lemma nodup_remove_seq s (q : list call) : NoDup (map dc_seq q) -> NoDup (map dc_seq (remove_seq s q)).
Proof.
  induction q as [|a r IH]; simpl; intro H; [constructor|].
  inversion H as [|? ? Hn Hr]; subst. destruct (negb (Nat.eqb (dc_seq a) s)); simpl; [|apply IH; exact Hr].
  constructor; [|apply IH; exact Hr]. intro Hi. apply Hn. apply in_map_iff in Hi as [b [Eb Hb]].
  apply in_remove_seq in Hb as [Hb _]. apply in_map_iff. exists b; split; assumption.
Qed.

Lemma nodup_seq_inj (q : list call) a b : NoDup (map dc_seq q) -> In a q -> In b q -> dc_seq a = dc_seq b -> a = b.
Proof.
  induction q as [|c r IH]; simpl; intros H Ha Hb E; [destruct Ha|].
  inversion H as [|? ? Hn Hr]; subst.
  destruct Ha as [->|Ha], Hb as [->|Hb]; [reflexivity| | |apply IH; assumption].
  - exfalso. apply Hn. rewrite E. apply in_map; exact Hb.
  - exfalso. apply Hn. rewrite <- E. apply in_map; exact Ha.
Qed.

Lemma remove_seq_notin s (q : list call) : ~ In s (map dc_seq q) -> remove_seq s q = q.
Proof.
  induction q as [|a r IH]; simpl; intro H; [reflexivity|].
  destruct (Nat.eqb (dc_seq a) s) eqn:E.
  - apply Nat.eqb_eq in E. exfalso; apply H; left; exact E.
  - simpl. f_equal. apply IH. intro Hi; apply H; right; exact Hi.
Qed.

Lemma remove_seq_split (q : list call) c : NoDup (map dc_seq q) -> In c q ->
  exists l1 l2, q = l1 ++ c :: l2 /\ remove_seq (dc_seq c) q = l1 ++ l2.
Proof.
  intros Hn Hin. destruct (in_split c q Hin) as [l1 [l2 ->]]. exists l1, l2. split; [reflexivity|].
  rewrite map_app in Hn. simpl in Hn.
  pose proof (NoDup_remove_2 _ _ _ Hn) as Hni.
  unfold remove_seq. rewrite filter_app. simpl. rewrite Nat.eqb_refl. simpl.
  fold (remove_seq (dc_seq c) l1). fold (remove_seq (dc_seq c) l2).
  rewrite !remove_seq_notin; [reflexivity| |]; intro H; apply Hni; apply in_or_app; [right|left]; exact H.
Qed.

Definition seq_in (s : nat) (q : list call) : bool := existsb (fun c => Nat.eqb (dc_seq c) s) q.

Lemma seq_in_spec s q : seq_in s q = true <-> exists c, In c q /\ dc_seq c = s.
Proof.
  unfold seq_in. rewrite existsb_exists. split; intros [c [H1 H2]]; exists c; split; try exact H1;
    apply Nat.eqb_eq; exact H2.
Qed.

Lemma seq_in_remove_same s q : seq_in s (remove_seq s q) = false.
Proof.
  destruct (seq_in s (remove_seq s q)) eqn:E; [|reflexivity].
  apply seq_in_spec in E as [c [Hin Hs]]. apply in_remove_seq in Hin as [_ Hne]. congruence.
Qed.

Lemma seq_in_remove_other s s' q : s <> s' -> seq_in s (remove_seq s' q) = seq_in s q.
Proof.
  intro Hne. destruct (seq_in s q) eqn:E.
  - apply seq_in_spec in E as [c [Hin Hs]]. apply seq_in_spec. exists c. split; [|exact Hs].
    apply in_remove_seq. split; [exact Hin | congruence].
  - destruct (seq_in s (remove_seq s' q)) eqn:E'; [|reflexivity].
    apply seq_in_spec in E' as [c [Hin Hs]]. apply in_remove_seq in Hin as [Hin _].
    assert (seq_in s q = true) by (apply seq_in_spec; exists c; split; assumption). congruence.
Qed.

(* cancelling everything getDelayedCalls() returned empties the queue *)
Lemma cancel_all_aux (l : list call) : forall (w : world),
  (forall c, In c (queue (w_r w)) -> In c l) ->
  queue (w_r (fold_left (fun w c => set_r (cancel (dc_seq c) (w_r w)) w) l w)) = [].
Proof.
  induction l as [|a l IH]; simpl; intros w H.
  - destruct (queue (w_r w)) as [|c r]; [reflexivity|]. destruct (H c (or_introl eq_refl)).
  - apply IH. intros c Hc. destruct w as [r st sg fl sp ran re]; destruct r; simpl in *.
    apply in_remove_seq in Hc as [Hc Hne]. destruct (H c Hc) as [->|Hl]; [congruence | exact Hl].
Qed.

Lemma fold_cancel_frame (l : list call) : forall (w : world),
  let w' := fold_left (fun w c => set_r (cancel (dc_seq c) (w_r w)) w) l w in
  w_stop w' = w_stop w /\ w_sig w' = w_sig w /\ w_flag w' = w_flag w /\ w_sp w' = w_sp w /\ w_ran w' = w_ran w
  /\ w_reentry w' = w_reentry w /\ readers (w_r w') = readers (w_r w) /\ running (w_r w') = running (w_r w)
  /\ really_stopped (w_r w') = really_stopped (w_r w) /\ hooks (w_r w') = hooks (w_r w).
Proof.
  induction l as [|a l IH]; simpl; intro w; [repeat split|].
  specialize (IH (set_r (cancel (dc_seq a) (w_r w)) w)). simpl in IH.
  destruct w as [r st sg fl sp ran re]; destruct r; simpl in *. exact IH.
Qed.

(* ================= tokens ================= *)
Definition nt := not_timeout_tok.
Definition tokc (c : call) : nat := tok_of (dc_act c).
Definition E (w : world) : list nat := crash_toks (w_ran w).

Lemma crash_toks_app a b : crash_toks (a ++ b) = crash_toks a ++ crash_toks b.
Proof. unfold crash_toks. apply filter_app. Qed.

Lemma has_app t a b : has t (a ++ b) = has t a || has t b.
Proof. unfold has. apply existsb_app. Qed.

Lemma filter_nt_remove_timeout s (q : list call) :
  (forall c, In c q -> dc_seq c = s -> nt (tokc c) = false) ->
  filter nt (map tokc (remove_seq s q)) = filter nt (map tokc q).
Proof.
  induction q as [|a r IH]; simpl; intro H; [reflexivity|].
  destruct (Nat.eqb (dc_seq a) s) eqn:Es; simpl.
  - apply Nat.eqb_eq in Es. rewrite (H a (or_introl eq_refl) Es). apply IH.
    intros c Hc. apply H. right; exact Hc.
  - rewrite IH; [reflexivity|]. intros c Hc. apply H. right; exact Hc.
Qed.

Lemma perm_move (q : list call) c ran rd : NoDup (map dc_seq q) -> In c q -> nt (tokc c) = true ->
  Permutation (filter nt (ran ++ [tokc c]) ++ filter nt (map tokc (remove_seq (dc_seq c) q)) ++ rd)
              (filter nt ran ++ filter nt (map tokc q) ++ rd).
Proof.
  intros Hn Hin Hnt. destruct (remove_seq_split q c Hn Hin) as [l1 [l2 [-> ->]]].
  rewrite !map_app, !filter_app. simpl. rewrite Hnt.
  rewrite <- !app_assoc. apply Permutation_app_head. simpl.
  apply Permutation_middle.
Qed.

Lemma perm_drop0 (q : list call) c ran rd : NoDup (map dc_seq q) -> In c q -> nt (tokc c) = false ->
  filter nt (ran ++ [tokc c]) ++ filter nt (map tokc (remove_seq (dc_seq c) q)) ++ rd
  = filter nt ran ++ filter nt (map tokc q) ++ rd.
Proof.
  intros Hn Hin Hnt. destruct (remove_seq_split q c Hn Hin) as [l1 [l2 [-> ->]]].
  rewrite !map_app, !filter_app. simpl. rewrite Hnt. rewrite app_nil_r. reflexivity.
Qed.

(* ================= one run: the static context and the loop invariant ================= *)
Record ctx := mkCtx {
  c_n0 : time;            (* the reactor's clock when run() was called *)
  c_T : time;
  c_f : fn;
  c_s : nat;              (* handle of the timeout call *)
  c_sig : sigtab;         (* the signal table while the reactor spins *)
  c_saved : sigtab;
  c_rd : list nat;        (* selectables registered by the function *)
  c_ht : list nat         (* tokens of the delayed calls scheduled by start-up hooks *)
}.

Section OneRun.
  Variable x : ctx.
  Notation T := (c_T x).
  Notation f := (c_f x).

  Definition estar : time := earliest (events T f).
  Definition mstar : time := c_n0 x + estar.

  Definition legit (c : call) : Prop :=
    (dc_seq c = c_s x -> dc_act c = ATimeout) /\
    match dc_act c with
    | ATimeout => dc_seq c = c_s x /\ dc_time c = c_n0 x + T
    | AFire o => exists t, f_shape f = Later t o /\ dc_time c = c_n0 x + t
    | AStopReq => exists st, f_stop f = Some st /\ dc_time c = c_n0 x + st
    | ANoop t => 10 <= t
    | ATry t _ => 10 <= t
    | ARunFunction _ _ | AHook _ _ => False
    end.

  (* every event that can end the run is still scheduled *)
  Definition present (q : list call) : Prop :=
    forall k t, ev_time T f k = Some t ->
      exists c, In c q /\ tokc c = k /\ dc_time c = c_n0 x + t.

  (* q: the queue, e: the run-ending calls that have run, sp: the spinner *)
  Inductive st_ok (q : list call) (e : list nat) (sp : spinner) : Prop :=
  | StA : seq_in (c_s x) q = true -> has 0 e = false -> has 1 e = false ->
          sp_success sp = None -> sp_failure sp = None -> st_ok q e sp
  | StB : seq_in (c_s x) q = false -> has 0 e = true -> sp_failure sp = Some ETimeout -> st_ok q e sp
  | StC : seq_in (c_s x) q = false -> has 0 e = false -> has 1 e = true ->
          (exists t o, f_shape f = Later t o /\ get_result sp = result_of o) -> st_ok q e sp.

  Record Inv (w : world) : Prop := {
    i_nodup : NoDup (map dc_seq (queue (w_r w)));
    i_legit : Forall legit (queue (w_r w));
    i_stop : w_stop w = SFake;
    i_rs : really_stopped (w_r w) = false;
    i_hooks : hooks (w_r w) = [];
    i_rd : readers (w_r w) = c_rd x;
    i_sig : w_sig w = c_sig x;
    i_flag : w_flag w = true;
    i_re : reentry_okb f (w_reentry w) = true;
    i_junk : sp_junk (w_sp w) = [];
    i_saved : sp_saved (w_sp w) = c_saved x;
    i_tc : sp_timeout_call (w_sp w) = Some (c_s x);
    i_st : st_ok (queue (w_r w)) (E w) (w_sp w);
    i_phase : running (w_r w) = true -> E w = [] /\ sp_spinning (w_sp w) = true /\ present (queue (w_r w));
    i_live : running (w_r w) = true \/ E w <> [];
    i_early : forall k, In k (E w) -> ev_time T f k = Some estar;
    i_perm : Permutation (filter nt (w_ran w) ++ filter nt (map tokc (queue (w_r w))) ++ c_rd x)
                         (c_ht x ++ sched_tokens f);
    i_ht : forall t, In t (c_ht x) -> 10 <= t
  }.

  (* ---- events and their instants ---- *)
  Lemma ev_time_events k t : ev_time T f k = Some t -> exists r, In (t, r) (events T f).
  Proof.
    unfold ev_time, events. destruct k as [|[|[|k]]]; intro H.
    - injection H as <-. eexists; left; reflexivity.
    - destruct (f_shape f) as [| t' o |]; try discriminate. injection H as <-.
      eexists; right; left; reflexivity.
    - rewrite H. eexists; right. apply in_or_app; right. left; reflexivity.
    - discriminate.
  Qed.

  Lemma events_ev_time t : In t (map fst (events T f)) -> exists k, ev_time T f k = Some t.
  Proof.
    unfold events. simpl. intros [<-|H]; [exists 0; reflexivity|].
    rewrite map_app in H. apply in_app_or in H as [H|H].
    - destruct (f_shape f) as [| t' o |] eqn:Es; simpl in H; try destruct H as [<-|[]]; try destruct H.
      exists 1. simpl. rewrite Es. reflexivity.
    - destruct (f_stop f) as [st|] eqn:Es; simpl in H; [destruct H as [<-|[]] | destruct H].
      exists 2. simpl. exact Es.
  Qed.

  Lemma estar_least k t : ev_time T f k = Some t -> estar <= t.
  Proof.
    intro H. destruct (ev_time_events k t H) as [r Hin].
    destruct (earliest_spec (events T f) (events_ne T f)) as [_ Hle]. exact (Hle (t, r) Hin).
  Qed.

  Lemma estar_attained : exists k, ev_time T f k = Some estar.
  Proof.
    destruct (earliest_spec (events T f) (events_ne T f)) as [Hin _]. apply events_ev_time. exact Hin.
  Qed.

  Lemma ev_time_le2 k t : ev_time T f k = Some t -> k <= 2.
  Proof. destruct k as [|[|[|k]]]; simpl; intro H; try lia. discriminate. Qed.

  (* a legitimate call that can end the run carries its event's instant *)
  Lemma legit_ev c : legit c -> tokc c <= 2 -> exists t, ev_time T f (tokc c) = Some t /\ dc_time c = c_n0 x + t.
  Proof.
    unfold legit, tokc. intros [_ H] Hk. destruct (dc_act c) as [|o| |tk|tk oo| |]; simpl in *.
    - exists T. split; [reflexivity | apply H].
    - destruct H as [t [Es Ht]]. exists t. rewrite Es. split; [reflexivity | exact Ht].
    - destruct H as [st [Es Ht]]. exists st. split; assumption.
    - lia.
    - lia.
    - destruct H.
    - destruct H.
  Qed.

  (* the first call that ends the run is due at the earliest of the three instants *)
  Lemma first_time w c : Inv w -> In c (queue (w_r w)) ->
    (forall c', In c' (queue (w_r w)) -> dc_time c <= dc_time c') ->
    (E w <> [] -> dc_time c = mstar) ->
    forall t, ev_time T f (tokc c) = Some t -> dc_time c = c_n0 x + t -> t = estar.
  Proof.
    intros HI Hin Hmin HE t Hev Ht.
    pose proof (estar_least _ _ Hev) as Hle.
    destruct (E w) as [|e0 er] eqn:EE.
    - destruct (i_live w HI) as [Hrun|Hne]; [|congruence].
      destruct (i_phase w HI Hrun) as [_ [_ Hp]].
      destruct estar_attained as [k Hk]. destruct (Hp k estar Hk) as [c' [Hc' [_ Ht']]].
      specialize (Hmin c' Hc'). lia.
    - assert (Hm : dc_time c = mstar) by (apply HE; discriminate). unfold mstar in Hm. lia.
  Qed.

  (* the Deferred fires at most once *)
  Lemma count_app_nat (a b : list nat) k : count (a ++ b) k = count a k + count b k.
  Proof. unfold count. apply count_occ_app. Qed.

  Lemma count_fire_sched : (forall t, In t (c_ht x) -> 10 <= t) -> count (c_ht x ++ sched_tokens f) 1 <= 1.
  Proof.
    intro Hht. rewrite count_app_nat. rewrite (count_notin (c_ht x)) by (intro H; apply Hht in H; lia).
    unfold sched_tokens. rewrite !count_app_nat.
    rewrite (count_notin (map tok_extra _)), (count_notin (map tok_sel _)).
    - destruct (f_stop f), (f_shape f); simpl; lia.
    - intro H. apply in_map_iff in H as [j [Hj _]]. unfold tok_sel in Hj. lia.
    - intro H. apply in_map_iff in H as [j [Hj _]]. unfold tok_extra in Hj. lia.
  Qed.

  Lemma count_in_pos (l : list nat) k : In k l -> 1 <= count l k.
  Proof. intro H. unfold count. apply count_occ_In. exact H. Qed.

  Lemma fire_once w c o : Inv w -> has 1 (E w) = true -> In c (queue (w_r w)) -> dc_act c = AFire o -> False.
  Proof.
    intros HI Hh Hin Ha. pose proof (i_perm w HI) as P.
    assert (Hc : count (filter nt (w_ran w) ++ filter nt (map tokc (queue (w_r w))) ++ c_rd x) 1 <= 1).
    { pose proof (proj1 (@Permutation_count_occ nat Nat.eq_dec _ _) P 1) as HH. unfold count. rewrite HH.
      apply count_fire_sched. exact (i_ht w HI). }
    rewrite !count_app_nat in Hc.
    assert (H1 : 1 <= count (filter nt (w_ran w)) 1).
    { apply count_in_pos. apply filter_In. split; [|reflexivity].
      apply has_In in Hh. unfold E, crash_toks in Hh. apply filter_In in Hh. apply Hh. }
    assert (H2 : 1 <= count (filter nt (map tokc (queue (w_r w)))) 1).
    { apply count_in_pos. apply filter_In. split; [|reflexivity].
      apply in_map_iff. exists c. split; [|exact Hin]. unfold tokc. rewrite Ha. reflexivity. }
    lia.
  Qed.

  Lemma st_decided q e sp : st_ok q e sp -> get_result sp = decided f e.
  Proof.
    unfold decided. intros [Hp H0 H1 Hs Hf | Hp H0 Hf | Hp H0 H1 [t [o [Es Hr]]]].
    - rewrite H0, H1. unfold get_result. rewrite Hf, Hs. reflexivity.
    - rewrite H0. unfold get_result. rewrite Hf. reflexivity.
    - rewrite H0, H1, Es. exact Hr.
  Qed.
End OneRun.

Ltac prj := cbn [w_r w_stop w_sig w_flag w_sp w_ran w_reentry now nextseq queue hooks readers running
                 really_stopped oracle sp_success sp_failure sp_junk sp_spinning sp_timeout_call sp_saved
                 dc_time dc_seq dc_act] in *.

Lemma leb_gt2 t : 10 <= t -> Nat.leb t 2 = false.
Proof. intro H. apply Nat.leb_gt. lia. Qed.

Lemma app_one_ne {A} (l : list A) a : l ++ [a] <> [].
Proof. destruct l; discriminate. Qed.

(* a call of run() made while a run is in progress is refused and changes nothing *)
Definition refuses (inn : world -> res value exc * world) : Prop :=
  forall w, w_flag w = true -> inn w = (Raised EReentry, w).

Lemma reentry_okb_snoc f re : reentry_okb f re = true -> reentry_okb f (re ++ [true]) = true.
Proof.
  unfold reentry_okb. rewrite !andb_true_iff, forallb_app, app_length. intros [H1 H2]. simpl.
  rewrite H1. split; [reflexivity|]. apply Nat.leb_le. apply Nat.leb_le in H2. lia.
Qed.

Section Step.
  Variable x : ctx.
  Variable inn : world -> res value exc * world.
  Hypothesis Hinn : refuses inn.

  Lemma st_ok_ext q q' e e' sp : st_ok x q e sp -> seq_in (c_s x) q' = seq_in (c_s x) q ->
    has 0 e' = has 0 e -> has 1 e' = has 1 e -> st_ok x q' e' sp.
  Proof.
    intros H Hp H0 H1. destruct H.
    - apply StA; congruence.
    - apply StB; congruence.
    - apply StC; try congruence.
  Qed.

  Lemma legit_remove s q : Forall (legit x) q -> Forall (legit x) (remove_seq s q).
  Proof.
    intro H. apply Forall_forall. intros c Hc. apply in_remove_seq in Hc as [Hc _].
    eapply Forall_forall in H; eauto.
  Qed.

  Lemma incl_remove s (q : list call) : incl (remove_seq s q) q.
  Proof. intros c Hc. apply in_remove_seq in Hc. apply Hc. Qed.

  Definition popw (c : call) (nw : time) (orc' : list nat) (w : world) : world :=
    set_r (mkReactor nw (nextseq (w_r w)) (remove_seq (dc_seq c) (queue (w_r w))) (hooks (w_r w))
                     (readers (w_r w)) (running (w_r w)) (really_stopped (w_r w)) orc') w.

  Lemma exec_ok w c nw orc' :
    Inv x w -> In c (queue (w_r w)) ->
    (forall c', In c' (queue (w_r w)) -> dc_time c <= dc_time c') ->
    (E w <> [] -> dc_time c = mstar x) ->
    let w' := exec_call inn c (popw c nw orc' w) in
    Inv x w' /\ (E w' <> [] -> dc_time c = mstar x)
    /\ incl (queue (w_r w')) (queue (w_r w)) /\ length (queue (w_r w')) < length (queue (w_r w)).
  Proof.
    intros HI Hin Hmin HE.
    assert (Hleg : legit x c). { eapply Forall_forall; [apply (i_legit x w HI)|exact Hin]. }
    pose proof (first_time x w c HI Hin Hmin HE) as Hfirst.
    pose proof (fun o => fire_once x w c o HI) as Hfire.
    destruct HI as [Hnd Hlg Hst Hrs Hhk Hrd Hsg Hfl Hre Hjk Hsv Htc Hstate Hphase Hlive Hearly Hperm Hht].
    destruct w as [[n sq q h rd run rs orc] st sg fl [su fa jk spn tc sv] ran re].
    unfold E in *. prj. subst.
    assert (Hrunf : (if spn then false else run) = false).
    { destruct spn; [reflexivity|]. destruct run; [|reflexivity]. destruct (Hphase eq_refl) as [_ [? _]]. discriminate. }
    destruct c as [ct cs ca]. unfold legit in Hleg; prj. destruct Hleg as [Hs_act Hleg]. unfold tokc in Hfirst; prj.
    destruct ca as [|o| |tk|tk oo| |]; cbv zeta.
    - (* the timeout call *)
      destruct Hleg as [-> ->].
      assert (Hpend : seq_in (c_s x) q = true).
      { apply seq_in_spec. eexists; split; [exact Hin|reflexivity]. }
      destruct Hstate as [_ H0 H1 Hsu Hfa | Hp _ _ | Hp _ _ _]; [|congruence|congruence]. prj. subst su fa.
      assert (Hestar : c_T x = estar x). { apply Hfirst; reflexivity. }
      match goal with |- context [exec_call inn ?a ?b] => set (w' := exec_call inn a b) end.
      assert (Ew' : w' = mkW (mkReactor nw sq (remove_seq (c_s x) q) [] (c_rd x) (if spn then false else run) false orc')
                             SFake (c_sig x) true (mkSp None (Some ETimeout) [] false (Some (c_s x)) (c_saved x))
                             (ran ++ [0]) re).
      { subst w'. destruct spn; reflexivity. }
      rewrite Ew'. clear w' Ew'. rewrite Hrunf. prj.
      split; [|split; [|split]].
      + constructor; unfold E; prj; try reflexivity; try exact Hht; try exact Hre.
        * apply nodup_remove_seq; exact Hnd.
        * apply legit_remove; exact Hlg.
        * apply StB; [apply seq_in_remove_same | | reflexivity].
          rewrite crash_toks_app, has_app. apply orb_true_r.
        * discriminate.
        * right. rewrite crash_toks_app. apply app_one_ne.
        * intros k Hk. rewrite crash_toks_app in Hk. apply in_app_or in Hk as [Hk|Hk]; [apply Hearly; exact Hk|].
          destruct Hk as [<-|[]]. simpl. rewrite Hestar. reflexivity.
        * pose proof (perm_drop0 q _ ran (c_rd x) Hnd Hin eq_refl) as HH. unfold tokc in HH at 1 3; prj.
          simpl tok_of in HH. unfold tok_timeout in HH. rewrite HH. exact Hperm.
      + intros _. unfold mstar. rewrite <- Hestar. reflexivity.
      + apply incl_remove.
      + exact (remove_seq_length_lt q _ Hin).
    - (* the function's Deferred fires *)
      destruct Hleg as [t [Hshape ->]].
      assert (Hcs : cs <> c_s x) by (intro HH; specialize (Hs_act HH); discriminate).
      assert (Hestar : t = estar x).
      { apply Hfirst; [simpl; rewrite Hshape|]; reflexivity. }
      assert (Hpq : seq_in (c_s x) (remove_seq cs q) = seq_in (c_s x) q).
      { apply seq_in_remove_other. congruence. }
      match goal with |- context [exec_call inn ?a ?b] => set (w' := exec_call inn a b) end.
      destruct Hstate as [Hp H0 H1 Hsu Hfa | Hp H0 Hfa | Hp _ H1 _]; prj.
      + (* in time: the result is recorded, the timeout cancelled *)
        subst su fa.
        assert (Ew' : w' = mkW (mkReactor nw sq (remove_seq (c_s x) (remove_seq cs q)) [] (c_rd x)
                                          (if spn then false else run) false orc')
                               SFake (c_sig x) true
                               (mkSp (match o with Succeed v => Some v | Fail _ => None end)
                                     (match o with Succeed _ => None | Fail e => Some (EUser e) end)
                                     [] false (Some (c_s x)) (c_saved x))
                               (ran ++ [1]) re).
        { subst w'. unfold exec_call, popw, got, timeout_pending, log_ran, set_ran, set_r. prj.
          fold (seq_in (c_s x) (remove_seq cs q)). rewrite Hpq, Hp.
          destruct spn, o; reflexivity. }
        rewrite Ew'. clear w' Ew'. rewrite Hrunf. prj.
        split; [|split; [|split]].
        * constructor; unfold E; prj; try reflexivity; try exact Hht; try exact Hre.
          -- apply nodup_remove_seq, nodup_remove_seq; exact Hnd.
          -- apply legit_remove, legit_remove; exact Hlg.
          -- apply StC; [apply seq_in_remove_same | | | ].
             ++ rewrite crash_toks_app, has_app, H0. reflexivity.
             ++ rewrite crash_toks_app, has_app. apply orb_true_r.
             ++ exists (estar x), o. rewrite <- Hestar. split; [exact Hshape|]. destruct o; reflexivity.
          -- discriminate.
          -- right. rewrite crash_toks_app. apply app_one_ne.
          -- intros k Hk. rewrite crash_toks_app in Hk. apply in_app_or in Hk as [Hk|Hk]; [apply Hearly; exact Hk|].
             destruct Hk as [<-|[]]. simpl. rewrite Hshape, Hestar. reflexivity.
          -- rewrite filter_nt_remove_timeout.
             ++ pose proof (perm_move q _ ran (c_rd x) Hnd Hin eq_refl) as HH. unfold tokc in HH at 1 3; prj.
                simpl tok_of in HH. unfold tok_fire in HH. rewrite HH. exact Hperm.
             ++ intros c' Hc' Hs'. apply in_remove_seq in Hc' as [Hc' _].
                eapply Forall_forall in Hlg; [|exact Hc']. destruct Hlg as [Hact _].
                unfold tokc. rewrite (Hact Hs'). reflexivity.
        * intros _. unfold mstar. rewrite <- Hestar. reflexivity.
        * intros c' Hc'. apply incl_remove in Hc'. apply incl_remove in Hc'. exact Hc'.
        * eapply Nat.le_lt_trans; [apply remove_seq_length|]. exact (remove_seq_length_lt q _ Hin).
      + (* after the timeout call has run: cancel() raises AlreadyCalled, nothing is recorded *)
        assert (Ew' : w' = mkW (mkReactor nw sq (remove_seq cs q) [] (c_rd x) (if spn then false else run) false orc')
                               SFake (c_sig x) true (mkSp su fa [] false (Some (c_s x)) (c_saved x))
                               (ran ++ [1]) re).
        { subst w'. unfold exec_call, popw, got, timeout_pending, log_ran, set_ran, set_r. prj.
          fold (seq_in (c_s x) (remove_seq cs q)). rewrite Hpq, Hp.
          destruct spn; reflexivity. }
        rewrite Ew'. clear w' Ew'. rewrite Hrunf. prj.
        split; [|split; [|split]].
        * constructor; unfold E; prj; try reflexivity; try exact Hht; try exact Hre.
          -- apply nodup_remove_seq; exact Hnd.
          -- apply legit_remove; exact Hlg.
          -- apply StB; [congruence | | exact Hfa].
             rewrite crash_toks_app, has_app, H0. reflexivity.
          -- discriminate.
          -- right. rewrite crash_toks_app. apply app_one_ne.
          -- intros k Hk. rewrite crash_toks_app in Hk. apply in_app_or in Hk as [Hk|Hk]; [apply Hearly; exact Hk|].
             destruct Hk as [<-|[]]. simpl. rewrite Hshape, Hestar. reflexivity.
          -- pose proof (perm_move q _ ran (c_rd x) Hnd Hin eq_refl) as HH. unfold tokc in HH at 1 3; prj.
             simpl tok_of in HH. unfold tok_fire in HH. rewrite HH. exact Hperm.
        * intros _. unfold mstar. rewrite <- Hestar. reflexivity.
        * apply incl_remove.
        * exact (remove_seq_length_lt q _ Hin).
      + exfalso. exact (Hfire o H1 Hin eq_refl).
    - (* the stop request *)
      destruct Hleg as [st [Hstop ->]].
      assert (Hcs : cs <> c_s x) by (intro HH; specialize (Hs_act HH); discriminate).
      assert (Hestar : st = estar x).
      { apply Hfirst; [simpl; exact Hstop | reflexivity]. }
      assert (Hpq : seq_in (c_s x) (remove_seq cs q) = seq_in (c_s x) q).
      { apply seq_in_remove_other. congruence. }
      match goal with |- context [exec_call inn ?a ?b] => set (w' := exec_call inn a b) end.
      assert (Ew' : w' = mkW (mkReactor nw sq (remove_seq cs q) [] (c_rd x) false false orc')
                             SFake (c_sig x) true (mkSp su fa [] spn (Some (c_s x)) (c_saved x))
                             (ran ++ [2]) re).
      { subst w'. reflexivity. }
      rewrite Ew'. clear w' Ew'. prj.
      split; [|split; [|split]].
      + constructor; unfold E; prj; try reflexivity; try exact Hht; try exact Hre.
        * apply nodup_remove_seq; exact Hnd.
        * apply legit_remove; exact Hlg.
        * eapply st_ok_ext; [exact Hstate | exact Hpq | |]; rewrite crash_toks_app, has_app; apply orb_false_r.
        * discriminate.
        * right. rewrite crash_toks_app. apply app_one_ne.
        * intros k Hk. rewrite crash_toks_app in Hk. apply in_app_or in Hk as [Hk|Hk]; [apply Hearly; exact Hk|].
          destruct Hk as [<-|[]]. simpl. rewrite Hstop, Hestar. reflexivity.
        * pose proof (perm_move q _ ran (c_rd x) Hnd Hin eq_refl) as HH. unfold tokc in HH at 1 3; prj.
          simpl tok_of in HH. unfold tok_stop in HH. rewrite HH. exact Hperm.
      + intros _. unfold mstar. rewrite <- Hestar. reflexivity.
      + apply incl_remove.
      + exact (remove_seq_length_lt q _ Hin).
    - (* a delayed call of the function's: it does nothing *)
      assert (Hcs : cs <> c_s x) by (intro HH; specialize (Hs_act HH); discriminate).
      assert (Hpq : seq_in (c_s x) (remove_seq cs q) = seq_in (c_s x) q).
      { apply seq_in_remove_other. congruence. }
      assert (Hct : crash_toks (ran ++ [tk]) = crash_toks ran).
      { rewrite crash_toks_app. unfold crash_toks at 2. simpl. rewrite (leb_gt2 tk Hleg). apply app_nil_r. }
      match goal with |- context [exec_call inn ?a ?b] => set (w' := exec_call inn a b) end.
      assert (Ew' : w' = mkW (mkReactor nw sq (remove_seq cs q) [] (c_rd x) run false orc')
                             SFake (c_sig x) true (mkSp su fa [] spn (Some (c_s x)) (c_saved x))
                             (ran ++ [tk]) re).
      { subst w'. reflexivity. }
      rewrite Ew'. clear w' Ew'. prj.
      split; [|split; [|split]].
      + constructor; unfold E; prj; try reflexivity; try exact Hht; try exact Hre; rewrite ?Hct.
        * apply nodup_remove_seq; exact Hnd.
        * apply legit_remove; exact Hlg.
        * eapply st_ok_ext; [exact Hstate | exact Hpq | reflexivity | reflexivity].
        * intro Hr. destruct (Hphase Hr) as [He [Hsp Hpres]]. split; [exact He|]. split; [exact Hsp|].
          intros k t Hev. destruct (Hpres k t Hev) as [c' [Hc' [Hk Ht]]]. exists c'. split; [|split; assumption].
          apply in_remove_seq. split; [exact Hc'|]. intro Hseq.
          assert (c' = mkCall ct cs (ANoop tk)) by (apply (nodup_seq_inj q); assumption).
          subst c'. unfold tokc in Hk; simpl in Hk. apply ev_time_le2 in Hev. lia.
        * exact Hlive.
        * exact Hearly.
        * pose proof (perm_move q _ ran (c_rd x) Hnd Hin) as HH. unfold tokc in HH at 1 2 4; prj.
          simpl tok_of in HH. rewrite HH; [exact Hperm|].
          unfold nt, not_timeout_tok, tok_timeout. destruct tk; [lia | reflexivity].
      + rewrite Hct. exact HE.
      + apply incl_remove.
      + exact (remove_seq_length_lt q _ Hin).
    - (* a delayed call of the function's that tries a re-entrant run: refused, nothing else changes *)
      assert (Hcs : cs <> c_s x) by (intro HH; specialize (Hs_act HH); discriminate).
      assert (Hpq : seq_in (c_s x) (remove_seq cs q) = seq_in (c_s x) q).
      { apply seq_in_remove_other. congruence. }
      assert (Hct : crash_toks (ran ++ [tk]) = crash_toks ran).
      { rewrite crash_toks_app. unfold crash_toks at 2. simpl. rewrite (leb_gt2 tk Hleg). apply app_nil_r. }
      match goal with |- context [exec_call inn ?a ?b] => set (w' := exec_call inn a b) end.
      assert (Ew' : w' = mkW (mkReactor nw sq (remove_seq cs q) [] (c_rd x) run false orc')
                             SFake (c_sig x) true (mkSp su fa [] spn (Some (c_s x)) (c_saved x))
                             (ran ++ [tk]) (re ++ [true])).
      { subst w'. unfold exec_call, popw, try_reenter, log_ran, set_ran, set_r. prj. rewrite Hinn by reflexivity. reflexivity. }
      rewrite Ew'. clear w' Ew'. prj.
      split; [|split; [|split]].
      + constructor; unfold E; prj; try reflexivity; try exact Hht; rewrite ?Hct; [| |apply reentry_okb_snoc; exact Hre| | | | |].
        * apply nodup_remove_seq; exact Hnd.
        * apply legit_remove; exact Hlg.
        * eapply st_ok_ext; [exact Hstate | exact Hpq | reflexivity | reflexivity].
        * intro Hr. destruct (Hphase Hr) as [He [Hsp Hpres]]. split; [exact He|]. split; [exact Hsp|].
          intros k t Hev. destruct (Hpres k t Hev) as [c' [Hc' [Hk Ht]]]. exists c'. split; [|split; assumption].
          apply in_remove_seq. split; [exact Hc'|]. intro Hseq.
          assert (c' = mkCall ct cs (ATry tk oo)) by (apply (nodup_seq_inj q); assumption).
          subst c'. unfold tokc in Hk; simpl in Hk. apply ev_time_le2 in Hev. lia.
        * exact Hlive.
        * exact Hearly.
        * pose proof (perm_move q _ ran (c_rd x) Hnd Hin) as HH. unfold tokc in HH at 1 2 4; prj.
          simpl tok_of in HH. rewrite HH; [exact Hperm|].
          unfold nt, not_timeout_tok, tok_timeout. destruct tk; [lia | reflexivity].
      + rewrite Hct. exact HE.
      + apply incl_remove.
      + exact (remove_seq_length_lt q _ Hin).
    - destruct Hleg.
    - destruct Hleg.
  Qed.
End Step.

(* ================= the event loop ================= *)
Section LoopProof.
  Variable x : ctx.
  Variable batch : bool.
  Variable inn : world -> res value exc * world.
  Hypothesis Hinn : refuses inn.

  Lemma pop_at_spec t (r : rtor) c r' : pop_at t r = Some (c, r') ->
    In c (queue r) /\ dc_time c = t /\ exists nw orc',
      r' = mkReactor nw (nextseq r) (remove_seq (dc_seq c) (queue r)) (hooks r) (readers r) (running r)
                     (really_stopped r) orc'.
  Proof.
    unfold pop_at. intro H. apply pop_from_spec in H as [Hin Hr]. apply filter_In in Hin as [Hin Ht].
    apply Nat.eqb_eq in Ht. repeat split; assumption.
  Qed.

  Lemma drain_ok : forall k tm w, Inv x w ->
    (forall c, In c (queue (w_r w)) -> tm <= dc_time c) -> (E w <> [] -> tm = mstar x) ->
    Inv x (drain w_r set_r (exec_call inn) k tm w)
    /\ length (queue (w_r (drain w_r set_r (exec_call inn) k tm w))) <= length (queue (w_r w)).
  Proof.
    induction k as [|k IH]; intros tm w HI Hmin HE; simpl; [split; [exact HI | apply Nat.le_refl]|].
    destruct (pop_at tm (w_r w)) as [[c r']|] eqn:Ep; [|split; [exact HI | apply Nat.le_refl]].
    apply pop_at_spec in Ep as [Hin [Ht [nw [orc' ->]]]].
    assert (Hminc : forall c', In c' (queue (w_r w)) -> dc_time c <= dc_time c').
    { intros c' Hc'. rewrite Ht. apply Hmin; exact Hc'. }
    assert (HEc : E w <> [] -> dc_time c = mstar x) by (intro H; rewrite Ht; apply HE; exact H).
    destruct (exec_ok x inn Hinn w c nw orc' HI Hin Hminc HEc) as [HI1 [HE1 [Hincl Hlen]]].
    fold (popw c nw orc' w).
    destruct (IH tm (exec_call inn c (popw c nw orc' w)) HI1) as [HI2 Hlen2].
    - intros c' Hc'. apply Hmin. apply Hincl. exact Hc'.
    - intro H. rewrite <- Ht. apply HE1. exact H.
    - split; [exact HI2|]. eapply Nat.le_trans; [exact Hlen2|]. apply Nat.lt_le_incl. exact Hlen.
  Qed.

  Lemma loop_S fuel w :
    loop w_r set_r (exec_call inn) batch (S fuel) w =
    if negb (running (w_r w)) then (LDone, w) else
    match pop_next (w_r w) with
    | None => (LHung, set_r (set_running false (w_r w)) w)
    | Some (c, r') =>
        let w1 := exec_call inn c (set_r r' w) in
        loop w_r set_r (exec_call inn) batch fuel
             (if batch then drain w_r set_r (exec_call inn) (length (queue r')) (dc_time c) w1 else w1)
    end.
  Proof. reflexivity. Qed.

  Lemma loop_ok : forall fuel w, Inv x w -> length (queue (w_r w)) < fuel ->
    exists w', loop w_r set_r (exec_call inn) batch fuel w = (LDone, w') /\ Inv x w' /\ running (w_r w') = false.
  Proof.
    induction fuel as [|fuel IH]; intros w HI Hlen; [inversion Hlen|].
    rewrite loop_S. destruct (running (w_r w)) eqn:Hrun; simpl negb; cbv iota.
    2:{ exists w. split; [reflexivity|]. split; assumption. }
    destruct (i_phase x w HI Hrun) as [HE0 [_ Hpres]].
    assert (Hne : queue (w_r w) <> []).
    { destruct (Hpres 0 (c_T x) eq_refl) as [c0 [Hc0 _]]. intro F. rewrite F in Hc0. exact Hc0. }
    unfold pop_next.
    destruct (pop_from_some (candidates (queue (w_r w))) (w_r w) (candidates_ne _ Hne)) as [c [r' Ep]].
    rewrite Ep. apply pop_from_spec in Ep as [Hcand [nw [orc' ->]]].
    apply candidates_in in Hcand as [Hin Hmin].
    assert (HEc : E w <> [] -> dc_time c = mstar x) by (intro H; congruence).
    destruct (exec_ok x inn Hinn w c nw orc' HI Hin Hmin HEc) as [HI1 [HE1 [Hincl Hlen1]]].
    fold (popw c nw orc' w). cbv zeta.
    set (w1 := exec_call inn c (popw c nw orc' w)) in *.
    destruct batch.
    - destruct (drain_ok (length (remove_seq (dc_seq c) (queue (w_r w)))) (dc_time c) w1 HI1) as [HI2 Hlen2].
      + intros c' Hc'. apply Hmin. apply Hincl. exact Hc'.
      + exact HE1.
      + cbn [queue]. apply IH; [exact HI2|].
        eapply Nat.le_lt_trans; [exact Hlen2|]. eapply Nat.lt_le_trans; [exact Hlen1|].
        apply Nat.lt_succ_r. exact Hlen.
    - apply IH; [exact HI1|]. eapply Nat.lt_le_trans; [exact Hlen1|]. apply Nat.lt_succ_r. exact Hlen.
  Qed.
End LoopProof.

(* ================= what the function leaves with the reactor ================= *)
Fixpoint mk_extras (n : time) (s i : nat) (ds : list (time * option bool)) : list call :=
  match ds with
  | [] => []
  | d :: r => mkCall (n + fst d) s (extra_action i (snd d)) :: mk_extras n (S s) (S i) r
  end.

Lemma schedule_extras_eq : forall ds i (r : rtor) st sg fl sp ran re,
  schedule_extras i ds (mkW r st sg fl sp ran re) =
  mkW (mkReactor (now r) (length ds + nextseq r) (queue r ++ mk_extras (now r) (nextseq r) i ds) (hooks r)
                 (readers r) (running r) (really_stopped r) (oracle r)) st sg fl sp ran re.
Proof.
  induction ds as [|d ds IH]; intros i r st sg fl sp ran re; simpl.
  - rewrite app_nil_r. destruct r; reflexivity.
  - destruct r as [rn rs rq rh rr rrun rrs ro]. unfold later, set_r, call_later. prj. cbn [fst].
    rewrite IH. prj. rewrite <- app_assoc. simpl. rewrite Nat.add_succ_r. reflexivity.
Qed.

Lemma add_sels_eq : forall m j (r : rtor) st sg fl sp ran re,
  add_sels j m (mkW r st sg fl sp ran re) =
  mkW (mkReactor (now r) (nextseq r) (queue r) (hooks r) (readers r ++ map tok_sel (seq j m)) (running r)
                 (really_stopped r) (oracle r)) st sg fl sp ran re.
Proof.
  induction m as [|m IH]; intros j r st sg fl sp ran re; simpl.
  - rewrite app_nil_r. destruct r; reflexivity.
  - destruct r as [rn rs rq rh rr rrun rrs ro]. unfold set_r, add_reader, set_readers. prj. rewrite IH. prj.
    rewrite <- app_assoc. reflexivity.
Qed.

Lemma mk_extras_seqs n s i ds : map dc_seq (mk_extras n s i ds) = seq s (length ds).
Proof. revert s i; induction ds as [|d ds IH]; intros s i; simpl; [reflexivity|]. rewrite IH. reflexivity. Qed.

Lemma mk_extras_toks n s i ds : map tokc (mk_extras n s i ds) = map tok_extra (seq i (length ds)).
Proof.
  revert s i; induction ds as [|d ds IH]; intros s i; simpl; [reflexivity|]. rewrite IH.
  destruct d as [d [o|]]; reflexivity.
Qed.

Lemma mk_extras_length n s i ds : length (mk_extras n s i ds) = length ds.
Proof. revert s i; induction ds as [|d ds IH]; intros s i; simpl; [reflexivity|]. rewrite IH. reflexivity. Qed.

Lemma mk_extras_in n s i ds c : In c (mk_extras n s i ds) ->
  (exists j, dc_act c = ANoop (tok_extra j) \/ exists o, dc_act c = ATry (tok_extra j) o)
  /\ s <= dc_seq c < s + length ds.
Proof.
  revert s i; induction ds as [|d ds IH]; intros s i; simpl; [intros []|].
  intros [<-|H]; simpl.
  - split; [|lia]. exists i. destruct d as [d [o|]]; simpl; [right; eexists; reflexivity | left; reflexivity].
  - destruct (IH _ _ H) as [H1 H2]. split; [exact H1 | lia].
Qed.

Lemma filter_nt_extras i k : filter nt (map tok_extra (seq i k)) = map tok_extra (seq i k).
Proof.
  revert i; induction k as [|k IH]; intro i; simpl; [reflexivity|]. rewrite IH. reflexivity.
Qed.

Lemma nodup_seq_tail : forall k base (tl : list nat),
  (forall y, In y tl -> base + k <= y) -> NoDup tl -> NoDup (seq base k ++ tl).
Proof.
  induction k as [|k IH]; intros base tl Hb Hn; simpl; [exact Hn|].
  constructor.
  - intro H. apply in_app_or in H as [H|H].
    + apply in_seq in H. lia.
    + specialize (Hb _ H). lia.
  - apply IH; [|exact Hn]. intros y Hy. specialize (Hb _ Hy). lia.
Qed.

Lemma loop_stopped inn batch fuel w : running (w_r w) = false ->
  loop w_r set_r (exec_call inn) batch fuel w = (LDone, w).
Proof. intro H. destruct fuel; simpl; rewrite H; reflexivity. Qed.

(* a run() tried from inside the function is refused: nothing changes *)
Lemma inner_refused iters batch : refuses (inner_run iters batch).
Proof. intros w H. unfold inner_run, guarded. rewrite H. reflexivity. Qed.

(* the attempts the function makes itself, one after the other *)
Lemma try_all_eq inn (Hinn : refuses inn) : forall l w, w_flag w = true ->
  fold_left (fun w o => try_reenter inn o w) l w = set_reentry (w_reentry w ++ map (fun _ => true) l) w.
Proof.
  induction l as [|o l IH]; intros w Hw; simpl.
  - rewrite app_nil_r. destruct w; reflexivity.
  - unfold try_reenter at 2. rewrite (Hinn w Hw). simpl is_reentry.
    rewrite IH by (destruct w; exact Hw). destruct w as [r st sg fl sp ran re]. unfold set_reentry. prj.
    rewrite <- app_assoc. reflexivity.
Qed.

(* the pieces of the queue after the function has been called *)
Definition q_stop (n : time) (s : nat) (f : fn) : list call :=
  match f_stop f with Some st => [mkCall (n + st) s AStopReq] | None => [] end.
Definition q_fire (n : time) (s : nat) (f : fn) : list call :=
  match f_shape f with Later t o => [mkCall (n + t) s (AFire o)] | _ => [] end.
Definition sig_fn (f : fn) (sg : sigtab) : sigtab :=
  match f_setsig f with Some (s, h) => setsig s h sg | None => sg end.
Definition is_sync (f : fn) : bool := match f_shape f with Sync _ _ => true | _ => false end.

(* the delayed calls scheduled by the start-up hooks that were registered before run() *)
Fixpoint hook_calls (n : time) (s j : nat) (hs : list hook) : list call :=
  match hs with
  | [] => []
  | HSched d :: r => mkCall (n + d) s (ANoop (tok_hook j)) :: hook_calls n (S s) (S j) r
  | _ :: r => hook_calls n s (S j) r
  end.

Lemma hook_calls_seqs n hs : forall s j, map dc_seq (hook_calls n s j hs) = seq s (length (hook_calls n s j hs)).
Proof.
  induction hs as [|[|d|] hs IH]; intros s j; simpl; [reflexivity|apply IH| |apply IH]. rewrite IH. reflexivity.
Qed.

Lemma hook_calls_toks n hs : forall s j, map tokc (hook_calls n s j hs) = hook_tokens j hs.
Proof.
  induction hs as [|[|d|] hs IH]; intros s j; simpl; [reflexivity|apply IH| |apply IH]. rewrite IH. reflexivity.
Qed.

Lemma hook_calls_in n hs c : forall s j, In c (hook_calls n s j hs) ->
  (exists j', dc_act c = ANoop (tok_hook j')) /\ s <= dc_seq c < s + length (hook_calls n s j hs).
Proof.
  induction hs as [|[|d|] hs IH]; intros s j; simpl; [intros []|apply IH| |apply IH].
  intros [<-|H]; simpl.
  - split; [eexists; reflexivity | lia].
  - destruct (IH _ _ H) as [H1 H2]. split; [exact H1 | lia].
Qed.

Lemma hook_tokens_ge hs : forall j t, In t (hook_tokens j hs) -> 10 <= t.
Proof.
  induction hs as [|[|d|] hs IH]; intros j t; simpl; [intros []|apply IH| |apply IH].
  intros [<-|H]; [unfold tok_hook; lia | eapply IH; exact H].
Qed.

Lemma filter_nt_hook_tokens hs : forall j, filter nt (hook_tokens j hs) = hook_tokens j hs.
Proof.
  induction hs as [|[|d|] hs IH]; intro j; simpl; [reflexivity|apply IH| |apply IH]. rewrite IH. reflexivity.
Qed.

Section AfterFunction.
  Variables (n T : time) (f : fn) (sq : nat) (orc : list nat) (sg SV : sigtab) (re : list bool) (iters : nat) (batch : bool) (hs : list hook).

  Definition tmo : call := mkCall (n + T) sq ATimeout.
  Definition k_ex := length (f_extras f).
  Definition qh : list call := hook_calls n (S sq) 0 hs.        (* scheduled by the start-up hooks *)
  Definition sqn := length qh + S sq.                           (* the next handle when the function is called *)
  Definition run0 : bool := negb (stopped_early hs).            (* still running when the function is called *)
  Definition s_stop := k_ex + sqn.
  Definition s_fire := length (q_stop n s_stop f) + s_stop.
  Definition q_mid : list call := (qh ++ mk_extras n sqn 0 (f_extras f)) ++ q_stop n s_stop f.
  Definition q_rest : list call := q_mid ++ q_fire n s_fire f.
  Definition rd2 : list nat := map tok_sel (seq 0 (f_sels f)).
  Definition re2 : list bool := re ++ map (fun _ => true) (f_reenter f).

  (* the world in which the callWhenRunning hook calls the function *)
  Definition w_hook : world :=
    mkW (mkReactor n sqn (tmo :: qh) [] [] run0 false orc) SFake sg true
        (mkSp None None [] true (Some sq) SV) [] re.

  (* ... and just before the function returns *)
  Definition w_pre : world :=
    mkW (mkReactor n s_fire (tmo :: q_mid) [] rd2 (if f_stop_now f then false else run0) false orc) SFake (sig_fn f sg) true
        (mkSp None None [] true (Some sq) SV) [] re2.

  Definition w_after : world :=
    match f_shape f with
    | Sync _ o =>
        mkW (mkReactor n s_fire q_rest [] rd2 false false orc) SFake (sig_fn f sg) true
            (mkSp (match o with Succeed v => Some v | Fail _ => None end)
                  (match o with Succeed _ => None | Fail e => Some (EUser e) end)
                  [] false (Some sq) SV) [] re2
    | _ =>
        mkW (mkReactor n (length (q_fire n s_fire f) + s_fire) (tmo :: q_rest) [] rd2 (if f_stop_now f then false else run0) false orc)
            SFake (sig_fn f sg) true (mkSp None None [] true (Some sq) SV) [] re2
    end.

  Lemma q_rest_seqs c : In c q_rest -> sq < dc_seq c.
  Proof.
    unfold q_rest, q_mid, q_stop, q_fire, s_fire, s_stop, q_stop, k_ex. intro H.
    unfold sqn in *.
    apply in_app_or in H as [H|H]; [apply in_app_or in H as [H|H]; [apply in_app_or in H as [H|H]|]|].
    - apply hook_calls_in in H. lia.
    - apply mk_extras_in in H; lia.
    - destruct (f_stop f); simpl in H; [destruct H as [<-|[]]; simpl; lia | destruct H].
    - destruct (f_shape f); simpl in H; try destruct H as [<-|[]]; try destruct H. simpl. lia.
  Qed.

  Lemma remove_tmo : remove_seq sq (tmo :: q_rest) = q_rest.
  Proof.
    unfold remove_seq. simpl. rewrite Nat.eqb_refl. simpl. fold (remove_seq sq q_rest).
    apply remove_seq_notin. intro H. apply in_map_iff in H as [c [Hs Hc]]. apply q_rest_seqs in Hc. lia.
  Qed.

  Lemma run_function_pre :
    run_function (inner_run iters batch) f w_hook =
    match f_shape f with
    | Sync _ o => stop_reactor (got o w_pre)
    | Later t o => later t (AFire o) w_pre
    | Never => w_pre
    end.
  Proof.
    unfold run_function, w_hook. rewrite schedule_extras_eq. prj. rewrite add_sels_eq. prj.
    unfold w_pre, q_mid, rd2, re2, sig_fn, s_fire, s_stop, q_stop, k_ex.
    destruct f as [shape extras sels stop stop_now reenter setsig].
    cbn [f_shape f_extras f_sels f_stop f_stop_now f_reenter f_setsig].
    destruct stop as [st|], setsig as [[ss hh]|], stop_now;
      rewrite (try_all_eq _ (inner_refused iters batch)) by reflexivity; rewrite ?app_nil_r; reflexivity.
  Qed.

  Lemma shape_step :
    match f_shape f with
    | Sync _ o => stop_reactor (got o w_pre)
    | Later t o => later t (AFire o) w_pre
    | Never => w_pre
    end = w_after.
  Proof.
    pose proof remove_tmo as Hrm. unfold w_after, q_rest, q_fire in *.
    destruct (f_shape f) as [how o|t o|].
    - rewrite app_nil_r in *. unfold w_pre, got, timeout_pending. prj. simpl existsb. rewrite Nat.eqb_refl.
      simpl orb. cbv iota. unfold cancel_timeout, cancel, set_queue, set_r. prj. rewrite Hrm.
      destruct o; reflexivity.
    - unfold w_pre, later, call_later, set_r. prj. cbn [fst]. reflexivity.
    - rewrite app_nil_r. reflexivity.
  Qed.

  Lemma run_function_eq : run_function (inner_run iters batch) f w_hook = w_after.
  Proof. rewrite run_function_pre. apply shape_step. Qed.

  (* ---- the loop invariant holds when the loop is entered ---- *)
  Definition cx : ctx := mkCtx n T f sq (sig_fn f sg) SV rd2 (hook_tokens 0 hs).

  Lemma q_all_nodup : NoDup (map dc_seq (tmo :: q_rest)).
  Proof.
    simpl. constructor.
    - intro H. apply in_map_iff in H as [c [Hs Hc]]. apply q_rest_seqs in Hc. lia.
    - unfold q_rest, q_mid. rewrite !map_app, mk_extras_seqs. unfold qh at 1. rewrite hook_calls_seqs. fold qh.
      replace (seq (S sq) (length qh) ++ seq sqn (length (f_extras f)))
        with (seq (S sq) (length qh + length (f_extras f)))
        by (rewrite seq_app; unfold sqn; rewrite (Nat.add_comm (S sq)); reflexivity).
      rewrite <- app_assoc. apply nodup_seq_tail.
      + unfold q_stop, q_fire, s_fire, s_stop, q_stop, k_ex, sqn. intros y Hy.
        destruct (f_stop f), (f_shape f); simpl in Hy; intuition lia.
      + unfold q_stop, q_fire, s_fire, s_stop, q_stop, k_ex, sqn.
        destruct (f_stop f), (f_shape f); simpl; repeat constructor; simpl; intuition lia.
  Qed.

  Lemma q_all_legit : Forall (legit cx) (tmo :: q_rest).
  Proof.
    constructor.
    - split; [reflexivity|]. simpl. split; reflexivity.
    - apply Forall_forall. intros c Hc. split.
      + intro Hs. apply q_rest_seqs in Hc. simpl in Hs. lia.
      + unfold q_rest, q_mid in Hc.
        apply in_app_or in Hc as [Hc|Hc]; [apply in_app_or in Hc as [Hc|Hc]; [apply in_app_or in Hc as [Hc|Hc]|]|].
        * apply hook_calls_in in Hc as [[j Hj] _]. rewrite Hj. unfold tok_hook. lia.
        * apply mk_extras_in in Hc as [[j [Hj|[o Hj]]] _]; rewrite Hj; unfold tok_extra; lia.
        * unfold q_stop in Hc. destruct (f_stop f) as [st|] eqn:Es; simpl in Hc; [|destruct Hc].
          destruct Hc as [<-|[]]. simpl. exists st. split; [exact Es | reflexivity].
        * unfold q_fire in Hc. destruct (f_shape f) as [|t o|] eqn:Es; simpl in Hc; try destruct Hc as [<-|[]]; try destruct Hc.
          simpl. exists t. split; [exact Es | reflexivity].
  Qed.

  Lemma q_all_present : present cx (tmo :: q_rest).
  Proof.
    intros k t Hev. simpl in Hev. destruct k as [|[|[|k]]]; simpl in Hev.
    - injection Hev as <-. exists tmo. split; [left; reflexivity|]. split; reflexivity.
    - destruct (f_shape f) as [|t' o|] eqn:Es; try discriminate. injection Hev as <-.
      exists (mkCall (n + t') s_fire (AFire o)). split; [|split; reflexivity].
      right. unfold q_rest. apply in_or_app. right. unfold q_fire. rewrite Es. left; reflexivity.
    - exists (mkCall (n + t) s_stop AStopReq). split; [|split; reflexivity].
      right. unfold q_rest, q_mid. apply in_or_app. left. apply in_or_app. right. unfold q_stop. rewrite Hev.
      left; reflexivity.
    - discriminate.
  Qed.

  Lemma q_rest_toks : filter nt (map tokc q_rest) ++ rd2 = hook_tokens 0 hs ++ sched_tokens f.
  Proof.
    unfold q_rest, q_mid, sched_tokens, rd2, qh.
    rewrite !map_app, !filter_app, mk_extras_toks, filter_nt_extras, hook_calls_toks, filter_nt_hook_tokens.
    unfold q_stop, q_fire. destruct (f_stop f), (f_shape f); simpl; rewrite <- ?app_assoc; reflexivity.
  Qed.

  Lemma rd2_toks t : In t rd2 -> 100 <= t.
  Proof. unfold rd2. intro H. apply in_map_iff in H as [j [<- _]]. unfold tok_sel. lia. Qed.

  Lemma re2_ok : forallb (fun b => b) re = true -> reentry_okb f re2 = true.
  Proof.
    intro H. unfold reentry_okb, re2. rewrite forallb_app, H, app_length, map_length. simpl.
    apply andb_true_iff. split; [|apply Nat.leb_le; lia].
    induction (f_reenter f) as [|o l IH]; simpl; [reflexivity | exact IH].
  Qed.

  Lemma after_inv : forallb (fun b => b) re = true -> is_sync f = false -> f_stop_now f = false ->
    stopped_early hs = false -> Inv cx w_after.
  Proof.
    intros Hre0 Hsy Hsn Hearly0.
    assert (Ew : w_after = mkW (mkReactor n (length (q_fire n s_fire f) + s_fire) (tmo :: q_rest) [] rd2 true false orc)
                               SFake (sig_fn f sg) true (mkSp None None [] true (Some sq) SV) [] re2).
    { unfold w_after, run0. unfold is_sync in Hsy. rewrite Hsn, Hearly0. destruct (f_shape f); [discriminate| |]; reflexivity. }
    rewrite Ew. constructor; unfold E; prj; try reflexivity.
    - exact q_all_nodup.
    - exact q_all_legit.
    - exact (re2_ok Hre0).
    - apply StA; try reflexivity. simpl. rewrite Nat.eqb_refl. reflexivity.
    - intros _. split; [reflexivity|]. split; [reflexivity|]. exact q_all_present.
    - left; reflexivity.
    - intros k [].
    - simpl. rewrite q_rest_toks. apply Permutation_refl.
    - simpl. apply hook_tokens_ge.
  Qed.
End AfterFunction.

(* ================= signals ================= *)
Definition setsigs (kvs t : sigtab) : sigtab := fold_left restore_step kvs t.

(* every saved handler that can be installed is put back; one that getsignal() reported as None is skipped *)
Lemma getsig_restore (g : nat -> nat) : forall L t s, In s L -> g s <> h_none ->
  getsig s (setsigs (map (fun s => (s, g s)) L) t) = g s.
Proof.
  induction L as [|a L IH] using rev_ind; intros t s Hin Hg; [destruct Hin|].
  unfold setsigs. rewrite map_app, fold_left_app. simpl. unfold restore_step at 1. simpl.
  destruct (Nat.eqb a s) eqn:Ea.
  - apply Nat.eqb_eq in Ea. subst.
    destruct (Nat.eqb (g s) h_none) eqn:En; [apply Nat.eqb_eq in En; congruence|].
    simpl. rewrite Nat.eqb_refl. reflexivity.
  - assert (Hin' : In s L).
    { apply in_app_or in Hin as [Hin|[Hin|[]]]; [exact Hin|]. subst. rewrite Nat.eqb_refl in Ea. discriminate. }
    destruct (Nat.eqb (g a) h_none); [|simpl; rewrite Ea]; apply IH; assumption.
Qed.

(* table obligations (Gen/Spinnertabs.v is printed from the live code) *)
Lemma tab_iterations : spinner_iterations = 0.
Proof. reflexivity. Qed.

Lemma tab_preserved : forall s, In s reactor_signals -> In s preserved_signals.
Proof.
  assert (H : forallb (fun s => existsb (Nat.eqb s) preserved_signals) reactor_signals = true) by reflexivity.
  intros s Hs. rewrite forallb_forall in H. specialize (H s Hs). apply existsb_exists in H as [y [Hy E]].
  apply Nat.eqb_eq in E. subst. exact Hy.
Qed.

Lemma tab_signals_distinct : NoDup reactor_signals.
Proof. unfold reactor_signals. repeat constructor; simpl; intuition discriminate. Qed.

(* ================= one run() on an idle reactor ================= *)
Record Idle (w : world) : Prop := {
  id_run : running (w_r w) = false;
  id_q : queue (w_r w) = [];
  id_rd : readers (w_r w) = [];
  id_hk : hooks (w_r w) = [];
  id_rs : really_stopped (w_r w) = false;
  id_flag : w_flag w = false
}.

Definition sig_run (sg : sigtab) : sigtab := fold_left (fun t s => setsig s h_reactor t) reactor_signals sg.
Definition saved_of (sg : sigtab) : sigtab := map (fun s => (s, getsig s sg)) preserved_signals.

Definition finish inn (real : stopfn) (e : loop_end) (wl : world) : res value exc * world :=
  let w := restore_signals (set_stop real wl) in
  match e with
  | LDone => (get_result (w_sp w), clean inn 0 w)
  | _ => (Raised EOther, w)
  end.

(* ---- the start-up hooks registered before run() ---- *)
Fixpoint hook_acts (j : nat) (hs : list hook) : list action :=
  match hs with [] => [] | h :: r => AHook j h :: hook_acts (S j) r end.

Lemma hook_acts_length hs : forall j, length (hook_acts j hs) = length hs.
Proof. induction hs as [|h hs IH]; intro j; simpl; [reflexivity|]. rewrite IH. reflexivity. Qed.

Lemma reg_hooks_eq : forall hs j (r : rtor) st sg fl sp ran re,
  reg_hooks j hs (mkW r st sg fl sp ran re) =
  mkW (mkReactor (now r) (nextseq r) (queue r) (hooks r ++ hook_acts j hs) (readers r) (running r)
                 (really_stopped r) (oracle r)) st sg fl sp ran re.
Proof.
  induction hs as [|h hs IH]; intros j r st sg fl sp ran re; simpl.
  - rewrite app_nil_r. destruct r; reflexivity.
  - destruct r as [rn rs rq rh rr rrun rrs ro]. unfold set_r, call_when_running, set_hooks. prj. rewrite IH. prj.
    rewrite <- app_assoc. reflexivity.
Qed.

Lemma hook_calls_length_le n hs : forall s j, length (hook_calls n s j hs) <= length hs.
Proof.
  induction hs as [|h hs IH]; intros s j; [apply Nat.le_refl|].
  destruct h as [|d|]; simpl.
  - apply Nat.le_le_succ_r. apply IH.
  - apply le_n_S. apply IH.
  - apply Nat.le_le_succ_r. apply IH.
Qed.

(* all of them fire, in registration order, before the next hook (the Spinner's own) *)
Lemma run_prehooks_eq inn a rest : forall hs j n s q hk rd run orc sg sp ran re,
  run_hooks w_r set_r (exec_hook inn) (hook_acts j hs ++ a :: rest)
    (mkW (mkReactor n s q hk rd run false orc) SFake sg true sp ran re)
  = run_hooks w_r set_r (exec_hook inn) rest
      (exec_hook inn a
         (mkW (mkReactor n (length (hook_calls n s j hs) + s) (q ++ hook_calls n s j hs) rest rd
                         (if stopped_early hs then false else run) false orc) SFake sg true sp ran re)).
Proof.
  induction hs as [|h hs IH]; intros j n s q hk rd run orc sg sp ran re.
  - simpl. rewrite app_nil_r. reflexivity.
  - simpl hook_acts. simpl app. simpl run_hooks. destruct h as [|d|].
    + unfold exec_hook at 2. unfold reactor_stop, set_r, crash, set_running, set_hooks. prj.
      rewrite IH. simpl. destruct (stopped_early hs); reflexivity.
    + unfold exec_hook at 2. unfold later, call_later, set_r, set_hooks. prj. cbn [fst].
      rewrite IH. simpl. rewrite <- app_assoc, Nat.add_succ_r. reflexivity.
    + unfold exec_hook at 2. unfold set_r, set_hooks. prj. rewrite IH. reflexivity.
Qed.

Lemma run_body_eq batch T f hs n sq orc st sg su fa spn tc sv re :
  run_body (inner_run 0 batch) 0 batch T f
    (mkW (mkReactor n sq [] (hook_acts 0 hs) [] false false orc) st sg true (mkSp su fa [] spn tc sv) [] re)
  = let '(e, wl) := loop w_r set_r (exec_call (inner_run 0 batch)) batch
                         (1 + length (hook_acts 0 hs ++ [ARunFunction T f]) + length (f_extras f) + 4)
                         (run_function (inner_run 0 batch) f (w_hook n T sq orc (sig_run sg) (saved_of sg) re hs)) in
    finish (inner_run 0 batch) st e wl.
Proof.
  transitivity
    (let '(e, wl) := loop w_r set_r (exec_call (inner_run 0 batch)) batch
                          (1 + length (hook_acts 0 hs ++ [ARunFunction T f]) + length (f_extras f) + 4)
                          (run_hooks w_r set_r (exec_hook (inner_run 0 batch)) (hook_acts 0 hs ++ [ARunFunction T f])
                             (mkW (mkReactor n (S sq) [tmo n T sq] (hook_acts 0 hs ++ [ARunFunction T f]) [] true false orc)
                                  SFake (sig_run sg) true (mkSp None None [] true (Some sq) (saved_of sg)) [] re)) in
     finish (inner_run 0 batch) st e wl); [reflexivity|].
  rewrite run_prehooks_eq. simpl run_hooks.
  unfold w_hook, qh, sqn, run0. destruct (stopped_early hs); reflexivity.
Qed.

Lemma finish_ok inn real wl : running (w_r wl) = false -> hooks (w_r wl) = [] -> really_stopped (w_r wl) = false ->
  w_flag wl = true -> sp_junk (w_sp wl) = [] ->
  exists w3, finish inn real LDone wl = (get_result (w_sp wl), w3)
    /\ Idle (set_flag false w3) /\ w_stop w3 = real
    /\ sp_junk (w_sp w3) = map tokc (queue (w_r wl)) ++ readers (w_r wl)
    /\ w_ran w3 = w_ran wl /\ w_reentry w3 = w_reentry wl
    /\ w_sig w3 = setsigs (sp_saved (w_sp wl)) (w_sig wl).
Proof.
  destruct wl as [[n sq q h rd run rs orc] st sg fl [su fa jk spn tc sv] ran re]. prj. intros -> -> -> -> ->.
  unfold finish, clean. simpl Nat.iter.
  set (w1 := restore_signals _).
  assert (Ew1 : w1 = mkW (mkReactor n sq q [] rd false false orc) real (setsigs sv sg) true
                         (mkSp su fa [] spn tc []) ran re) by reflexivity.
  rewrite Ew1. clear w1 Ew1. prj.
  set (w0 := mkW _ _ _ _ _ _ _).
  pose proof (cancel_all_aux q w0 (fun c H => H)) as Hq.
  pose proof (fold_cancel_frame q w0) as Hf. cbv zeta in Hf.
  set (wc := fold_left _ q w0) in *.
  destruct wc as [[n' sq' q' h' rd' run' rs' orc'] st' sg' fl' sp' ran' re']. subst w0. prj.
  destruct Hf as [-> [-> [-> [-> [-> [-> [-> [-> [-> ->]]]]]]]]]. subst q'.
  eexists. split; [reflexivity|]. prj. unfold remove_all, set_r, set_sp, sp_set_junk. prj.
  split; [constructor; reflexivity|]. repeat split; reflexivity.
Qed.


Lemma filter_nt_rd2 f : filter nt (rd2 f) = rd2 f.
Proof.
  unfold rd2. generalize 0. induction (f_sels f) as [|m IH]; intro j; simpl; [reflexivity|].
  rewrite IH. reflexivity.
Qed.

Lemma legit_tok0 x c : legit x c -> tokc c = 0 -> dc_seq c = c_s x.
Proof.
  unfold legit, tokc. intros [_ H] Ht. destruct (dc_act c) as [|o| |tk|tk oo| |]; simpl in *; try discriminate.
  - apply H.
  - lia.
  - lia.
  - destruct H.
  - destruct H.
Qed.

Definition restored (sg0 sg' : sigtab) : Prop :=
  forall s, In s preserved_signals -> getsig s sg0 <> h_none -> getsig s sg' = getsig s sg0.

Theorem run_fresh batch T f hs w : Idle w -> sp_junk (w_sp w) = [] -> w_ran w = [] -> w_reentry w = [] ->
  exists r w', run 0 batch T f (reg_hooks 0 hs w) = (r, w') /\ Idle w' /\ w_stop w' = w_stop w
    /\ allowed (stopped_early hs) T f (w_ran w') r = true
    /\ reentry_okb f (w_reentry w') = true
    /\ Permutation (filter nt (w_ran w') ++ filter nt (sp_junk (w_sp w'))) (hook_tokens 0 hs ++ sched_tokens f)
    /\ (In tok_timeout (sp_junk (w_sp w')) -> r = Raised ENoResult)
    /\ restored (w_sig w) (w_sig w').
Proof.
  intros [Hrun Hq Hrd Hhk Hrs Hfl] Hjk Hran Hre0.
  destruct w as [[n sq q h rd run rs orc] st sg fl [su fa jk spn tc sv] ran re]. prj. subst.
  rewrite reg_hooks_eq. prj. cbn [app].
  unfold run, guarded. prj. cbv iota. unfold set_flag at 1. prj.
  rewrite run_body_eq, run_function_eq.
  set (SG := sig_run sg). set (SV := saved_of sg).
  assert (Hrest : forall w3 sgl, w_sig w3 = setsigs SV sgl -> restored sg (w_sig (set_flag false w3))).
  { intros w3 sgl H1 s Hs Hn. unfold set_flag; prj. rewrite H1. unfold SV, saved_of.
    apply (getsig_restore (fun s => getsig s sg)); assumption. }
  destruct (is_sync f) eqn:Hsy; [|destruct (f_stop_now f || stopped_early hs) eqn:Hse].
  - (* the function returned a result synchronously *)
    unfold is_sync in Hsy. destruct (f_shape f) as [how o| |] eqn:Es; try discriminate.
    assert (Ew : w_after n T f sq orc SG SV [] hs =
                 mkW (mkReactor n (s_fire n f sq hs) (q_rest n f sq hs) [] (rd2 f) false false orc) SFake (sig_fn f SG) true
                     (mkSp (match o with Succeed v => Some v | Fail _ => None end)
                           (match o with Succeed _ => None | Fail e => Some (EUser e) end)
                           [] false (Some sq) SV) [] (re2 f [])).
    { unfold w_after. rewrite Es. reflexivity. }
    rewrite Ew. rewrite loop_stopped by reflexivity.
    match goal with |- context [finish ?ii ?rl LDone ?wl] => destruct (finish_ok ii rl wl) as [w3 [Ef [Hid [Hst3 [Hj [Hr [Hre Hsg]]]]]]]; try reflexivity end.
    rewrite Ef. prj. eexists; eexists. split; [reflexivity|]. split; [exact Hid|]. split; [exact Hst3|].
    unfold set_flag; prj. rewrite Hj, Hr, Hre. prj.
    split; [|split; [exact (re2_ok f [] eq_refl)|split; [|split]]].
    + unfold allowed. rewrite Es. apply result_eqb_spec. destruct o; reflexivity.
    + simpl. rewrite filter_app, filter_nt_rd2. rewrite q_rest_toks. apply Permutation_refl.
    + intro Hin. exfalso. apply in_app_or in Hin as [Hin|Hin].
      * apply in_map_iff in Hin as [c [Ht Hc]].
        pose proof (q_all_legit n T f sq SG SV hs) as Hl. inversion Hl as [|? ? _ Hl']; subst.
        eapply Forall_forall in Hl'; [|exact Hc]. apply legit_tok0 in Hl'; [|exact Ht].
        apply q_rest_seqs in Hc. simpl in Hl'. lia.
      * apply rd2_toks in Hin. unfold tok_timeout in Hin. lia.
    + apply (Hrest w3 _ Hsg).
  - (* the function stopped the reactor itself and returned an unfired Deferred *)
    assert (Ew : w_after n T f sq orc SG SV [] hs =
                 mkW (mkReactor n (length (q_fire n (s_fire n f sq hs) f) + s_fire n f sq hs) (tmo n T sq :: q_rest n f sq hs) [] (rd2 f) false false orc)
                     SFake (sig_fn f SG) true (mkSp None None [] true (Some sq) SV) [] (re2 f [])).
    { unfold w_after, run0. unfold is_sync in Hsy.
      destruct (f_stop_now f), (stopped_early hs); try discriminate Hse;
        (destruct (f_shape f); [discriminate| |]; reflexivity). }
    rewrite Ew. rewrite loop_stopped by reflexivity.
    match goal with |- context [finish ?ii ?rl LDone ?wl] => destruct (finish_ok ii rl wl) as [w3 [Ef [Hid [Hst3 [Hj [Hr [Hre Hsg]]]]]]]; try reflexivity end.
    rewrite Ef. prj. eexists; eexists. split; [reflexivity|]. split; [exact Hid|]. split; [exact Hst3|].
    unfold set_flag; prj. rewrite Hj, Hr, Hre. prj.
    split; [|split; [exact (re2_ok f [] eq_refl)|split; [|split]]].
    + unfold allowed. rewrite Hse. unfold is_sync in Hsy. destruct (f_shape f); [discriminate| |]; reflexivity.
    + simpl. rewrite filter_app, filter_nt_rd2. rewrite q_rest_toks. apply Permutation_refl.
    + intros _. reflexivity.
    + apply (Hrest w3 _ Hsg).
  - (* the reactor spins until one of the three events ends the run *)
    apply orb_false_iff in Hse as [Hsn Hearly0].
    pose proof (after_inv n T f sq orc SG SV [] hs eq_refl Hsy Hsn Hearly0) as HI0.
    destruct (loop_ok (cx n T f sq SG SV hs) batch (inner_run 0 batch) (inner_refused 0 batch)
                      (1 + length (hook_acts 0 hs ++ [ARunFunction T f]) + length (f_extras f) + 4) _ HI0)
      as [wl [El [HI Hrunl]]].
    { assert (Hl : length (queue (w_r (w_after n T f sq orc SG SV [] hs))) <= 1 + length hs + length (f_extras f) + 2).
      { pose proof (hook_calls_length_le n hs (S sq) 0) as Hh.
        unfold w_after. unfold is_sync in Hsy. destruct (f_shape f) eqn:Es; [discriminate| |]; prj; simpl length;
          unfold q_rest, q_mid, qh; rewrite !app_length, mk_extras_length; unfold q_stop, q_fire; rewrite Es;
          destruct (f_stop f); simpl; lia. }
      rewrite app_length, hook_acts_length. simpl. lia. }
    rewrite El.
    destruct (finish_ok (inner_run 0 batch) st wl Hrunl (i_hooks _ _ HI) (i_rs _ _ HI) (i_flag _ _ HI) (i_junk _ _ HI))
      as [w3 [Ef [Hid [Hst3 [Hj [Hr [Hre Hsg]]]]]]].
    rewrite Ef. eexists; eexists. split; [reflexivity|]. split; [exact Hid|]. split; [exact Hst3|].
    unfold set_flag; prj. rewrite Hj, Hr, Hre.
    pose proof (st_decided _ _ _ _ (i_st _ _ HI)) as Hdec. simpl c_f in Hdec.
    split; [|split; [|split; [|split]]].
    + unfold allowed. rewrite Hsn, Hearly0. simpl orb. unfold is_sync in Hsy.
      assert (Hgoal : negb (Nat.eqb (length (crash_toks (w_ran wl))) 0)
                      && forallb (fun k => option_eqb Nat.eqb (ev_time T f k) (Some (earliest (events T f))))
                                 (crash_toks (w_ran wl))
                      && result_eqb (get_result (w_sp wl)) (decided f (crash_toks (w_ran wl))) = true).
      { rewrite !andb_true_iff. split; [split|].
        - destruct (i_live _ _ HI) as [H|H]; [congruence|]. unfold E in H.
          destruct (crash_toks (w_ran wl)); [congruence | reflexivity].
        - apply forallb_forall. intros k Hk. pose proof (i_early _ _ HI k Hk) as He. simpl c_T in He. simpl c_f in He.
          rewrite He. unfold estar. simpl. apply Nat.eqb_refl.
        - apply result_eqb_spec. exact Hdec. }
      destruct (f_shape f); [discriminate| |]; exact Hgoal.
    + exact (i_re _ _ HI).
    + rewrite filter_app, (i_rd _ _ HI). simpl c_rd. rewrite filter_nt_rd2. exact (i_perm _ _ HI).
    + intro Hin. rewrite (i_rd _ _ HI) in Hin. simpl c_rd in Hin. apply in_app_or in Hin as [Hin|Hin].
      * apply in_map_iff in Hin as [c [Ht Hc]].
        pose proof (i_legit _ _ HI) as Hl. eapply Forall_forall in Hl; [|exact Hc].
        apply legit_tok0 in Hl; [|exact Ht]. simpl c_s in Hl.
        assert (Hp : seq_in sq (queue (w_r wl)) = true) by (apply seq_in_spec; exists c; split; assumption).
        destruct (i_st _ _ HI) as [_ _ _ Hs Hf | Hp' _ _ | Hp' _ _ _]; simpl c_s in *; try congruence.
        unfold get_result. rewrite Hf, Hs. reflexivity.
      * apply rd2_toks in Hin. unfold tok_timeout in Hin. lia.
    + rewrite (i_saved _ _ HI) in Hsg. apply (Hrest w3 _ Hsg).
Qed.

(* the two refusals *)
Lemma run_reentrant iters batch T f w : w_flag w = true -> run iters batch T f w = (Raised EReentry, w).
Proof. intro H. unfold run, guarded. rewrite H. reflexivity. Qed.

Lemma run_stale iters batch T f w : w_flag w = false -> sp_junk (w_sp w) <> [] ->
  run iters batch T f w = (Raised EStaleJunk, w).
Proof.
  destruct w as [r st sg fl [su fa jk spn tc sv] ran re]. prj. intros -> Hj.
  unfold run, guarded, run_body. prj. destruct jk; [congruence|]. reflexivity.
Qed.

(* ================= histories ================= *)
Lemma filter_perm {A} (p : A -> bool) l l' : Permutation l l' -> Permutation (filter p l) (filter p l').
Proof.
  induction 1; simpl.
  - constructor.
  - destruct (p x); [constructor|]; assumption.
  - destruct (p x), (p y); try reflexivity; try (constructor; reflexivity).
  - etransitivity; eassumption.
Qed.

Lemma sort_toks_perm l : Permutation l (sort_toks l).
Proof. apply isort_perm. Qed.

Lemma sort_toks_nil l : sort_toks l = [] -> l = [].
Proof. intro H. pose proof (sort_toks_perm l) as P. rewrite H in P. apply Permutation_nil. symmetry. exact P. Qed.

Lemma natlist_eqb_refl l : list_eqb Nat.eqb l l = true.
Proof. apply natlist_eqb_spec. reflexivity. Qed.

Lemma sigs_okb_map (g g' : nat -> nat) : forall L,
  (forall s, In s L -> g s = h_none \/ g' s = g s) -> sigs_okb (map g L) (map g' L) = true.
Proof.
  induction L as [|a L IH]; intro H; simpl; [reflexivity|].
  rewrite IH by (intros s Hs; apply H; right; exact Hs). rewrite andb_true_r.
  destruct (H a (or_introl eq_refl)) as [E|E]; rewrite E; [reflexivity|]. rewrite Nat.eqb_refl. apply orb_true_r.
Qed.

Lemma preinstall_sigs pre w : length pre = length reactor_signals ->
  map (fun s => getsig s (w_sig (preinstall pre w))) reactor_signals = pre.
Proof.
  destruct pre as [|a [|b [|c [|d pre]]]]; try discriminate. intros _. reflexivity.
Qed.

Definition prepare (rs : runspec) (w : world) : world :=
  set_reentry [] (set_ran [] (install_stop (r_stop rs)
    (preinstall (r_pre rs) (if r_clear rs then clear_junk w else w)))).

Lemma idle_prepare rs w : Idle w -> Idle (prepare rs w).
Proof.
  intros [H1 H2 H3 H4 H5 H6]. destruct w as [r st sg fl sp ran re]. unfold prepare, install_stop.
  destruct (r_clear rs), (r_stop rs); constructor; assumption.
Qed.

Lemma id_of_stop_of_id k : id_of_stop (stop_of_id k) = k.
Proof. destruct k; reflexivity. Qed.

Lemma prepare_stop ps rs w : id_of_stop (w_stop w) = ps -> id_of_stop (w_stop (prepare rs w)) = stop_before ps rs.
Proof.
  intro H. unfold prepare, stop_before, install_stop, set_reentry, set_ran. prj.
  destruct (r_stop rs) as [k|]; prj.
  - unfold set_stop. prj. apply id_of_stop_of_id.
  - destruct w as [r st sg fl sp ran re]. destruct (r_clear rs); exact H.
Qed.

(* the harness takes back hooks that never fired (a refused run does not start the reactor) *)
Definition unhook (w : world) : world := set_r (set_hooks [] (w_r w)) w.

Lemma unhook_idle w : Idle w -> Idle (unhook w).
Proof. intros [H1 H2 H3 H4 H5 H6]. destruct w as [[n sq q h rd run rs orc] st sg fl sp ran re]. constructor; try assumption; reflexivity. Qed.

Lemma unhook_frame w : sp_junk (w_sp (unhook w)) = sp_junk (w_sp w) /\ w_stop (unhook w) = w_stop w.
Proof. destruct w as [[n sq q h rd run rs orc] st sg fl sp ran re]. split; reflexivity. Qed.

Lemma unhook_reg hs w : Idle w -> Idle (unhook (reg_hooks 0 hs w)).
Proof.
  intros [H1 H2 H3 H4 H5 H6]. destruct w as [[n sq q h rd run rs orc] st sg fl sp ran re].
  rewrite reg_hooks_eq. constructor; try assumption; reflexivity.
Qed.

Lemma reg_hooks_frame hs w :
  w_flag (reg_hooks 0 hs w) = w_flag w /\ w_sp (reg_hooks 0 hs w) = w_sp w /\ w_stop (reg_hooks 0 hs w) = w_stop w
  /\ w_sig (reg_hooks 0 hs w) = w_sig w /\ w_ran (reg_hooks 0 hs w) = w_ran w /\ w_reentry (reg_hooks 0 hs w) = w_reentry w
  /\ running (w_r (reg_hooks 0 hs w)) = running (w_r w) /\ queue (w_r (reg_hooks 0 hs w)) = queue (w_r w)
  /\ readers (w_r (reg_hooks 0 hs w)) = readers (w_r w) /\ really_stopped (w_r (reg_hooks 0 hs w)) = really_stopped (w_r w).
Proof. destruct w as [r st sg fl sp ran re]. rewrite reg_hooks_eq. repeat split; reflexivity. Qed.

Lemma step_ok batch ps w rs : Idle w -> wf_run rs -> id_of_stop (w_stop w) = ps ->
  run_okb (if r_clear rs then [] else sort_toks (sp_junk (w_sp w))) (stop_before ps rs) rs (fst (step batch w rs)) = true
  /\ Idle (snd (step batch w rs))
  /\ o_junk (fst (step batch w rs)) = sort_toks (sp_junk (w_sp (snd (step batch w rs))))
  /\ id_of_stop (w_stop (snd (step batch w rs))) = stop_before ps rs.
Proof.
  intros Hid Hwf Hps. unfold step. rewrite tab_iterations.
  fold (prepare rs w). set (w3 := prepare rs w).
  match goal with |- context [set_r (set_hooks [] (w_r ?x)) ?x] => idtac end || idtac.
  pose proof (idle_prepare rs w Hid) as Hid3. fold w3 in Hid3.
  pose proof (prepare_stop ps rs w Hps) as Hst3. fold w3 in Hst3.
  assert (Hsig3 : map (fun s => getsig s (w_sig w3)) reactor_signals = r_pre rs).
  { subst w3. unfold prepare, set_reentry, set_ran, install_stop. prj.
    destruct (r_stop rs); unfold set_stop; prj; apply preinstall_sigs; exact Hwf. }
  assert (Hran3 : w_ran w3 = []) by reflexivity.
  assert (Hre3 : w_reentry w3 = []) by reflexivity.
  assert (Hj3 : sp_junk (w_sp w3) = if r_clear rs then [] else sp_junk (w_sp w)).
  { subst w3. unfold prepare, install_stop. destruct w as [r st sg fl [su fa jk spn tc sv] ran re].
    destruct (r_clear rs), (r_stop rs); reflexivity. }
  destruct (sp_junk (w_sp w3)) as [|j0 jr] eqn:Ej.
  - (* no stale junk: the run takes place *)
    destruct (run_fresh batch (r_timeout rs) (r_fn rs) (r_hooks rs) w3 Hid3 Ej Hran3 Hre3)
      as [r [w' [Er [Hid' [Hst' [Hal [Hre [Hperm [Hown Hrest]]]]]]]]].
    rewrite Er. cbn [fst snd]. fold (unhook w'). destruct (unhook_frame w') as [Hu1 Hu2].
    split; [|split; [exact (unhook_idle w' Hid') | split; [rewrite Hu1; reflexivity | rewrite Hu2, Hst'; exact Hst3]]].
    assert (Hstale : (if r_clear rs then [] else sort_toks (sp_junk (w_sp w))) = []).
    { destruct (r_clear rs); [reflexivity|]. rewrite <- Hj3. reflexivity. }
    rewrite Hstale. unfold run_okb, clean_okb, observe.
    cbn [o_res o_reentry o_ran o_order o_junk o_running o_pending o_readers o_stop o_stopped o_sigs].
    destruct Hid' as [H1 H2 H3 H4 H5 H7]. rewrite H1, H2, H3, H5, Hst', Hst3, !Nat.eqb_refl. cbn [length negb Nat.eqb andb].
    assert (Hsigs : sigs_okb (r_pre rs) (map (fun s => getsig s (w_sig w')) reactor_signals) = true).
    { rewrite <- Hsig3. apply sigs_okb_map. intros s Hs.
      destruct (Nat.eqb (getsig s (w_sig w3)) h_none) eqn:En; [left; apply Nat.eqb_eq; exact En|].
      right. apply Hrest; [apply tab_preserved; exact Hs | apply Nat.eqb_neq; exact En]. }
    rewrite Hsigs, Hal, natlist_eqb_refl, Hre. cbn [andb]. apply andb_true_iff. split.
    + apply perm_perm_eqb. etransitivity; [|exact Hperm].
      apply Permutation_app.
      * symmetry. apply sort_toks_perm.
      * apply filter_perm. symmetry. apply sort_toks_perm.
    + unfold own_junk_okb. cbn [o_junk o_res]. destruct (has tok_timeout (sort_toks (sp_junk (w_sp w')))) eqn:Eh; [|reflexivity].
      apply result_eqb_spec. apply Hown. apply has_In in Eh.
      eapply Permutation_in; [symmetry; apply sort_toks_perm | exact Eh].
  - (* stale junk: refused, nothing happens *)
    assert (Hc : r_clear rs = false).
    { destruct (r_clear rs); [discriminate | reflexivity]. }
    rewrite Hc in *. rewrite <- Hj3.
    destruct (reg_hooks_frame (r_hooks rs) w3) as [Hf1 [Hf2 [Hf3 [Hf4 [Hf5 [Hf6 [Hf7 [Hf8 [Hf9 Hf10]]]]]]]]].
    rewrite (run_stale 0 batch (r_timeout rs) (r_fn rs) (reg_hooks 0 (r_hooks rs) w3));
      [| rewrite Hf1; exact (id_flag _ Hid3) | rewrite Hf2, Ej; discriminate].
    cbn [fst snd]. fold (unhook (reg_hooks 0 (r_hooks rs) w3)).
    destruct (unhook_frame (reg_hooks 0 (r_hooks rs) w3)) as [Hu1 Hu2].
    split; [|split; [exact (unhook_reg _ w3 Hid3) | split; [unfold observe; cbn [o_junk]; rewrite Hu1, Hf2; reflexivity | rewrite Hu2, Hf3; exact Hst3]]].
    unfold run_okb, clean_okb, observe.
    cbn [o_res o_reentry o_ran o_order o_junk o_running o_pending o_readers o_stop o_stopped o_sigs].
    rewrite Hf2, Hf3, Hf4, Hf5, Hf6, Hf7, Hf8, Hf9, Hf10.
    destruct Hid3 as [H1 H2 H3 H4 H5 H7]. rewrite H1, H2, H3, H5, Hst3, !Nat.eqb_refl, Hsig3, Hran3, Hre3, sigs_okb_refl.
    cbn [length negb Nat.eqb andb].
    rewrite Ej. destruct (sort_toks (j0 :: jr)) as [|s0 sr] eqn:Es.
    + apply sort_toks_nil in Es. discriminate.
    + rewrite natlist_eqb_refl. reflexivity.
Qed.

Lemma steps_ok batch : forall rss ps w, Idle w -> Forall wf_run rss -> id_of_stop (w_stop w) = ps ->
  runs_okb (sort_toks (sp_junk (w_sp w))) ps rss (steps batch w rss) = true.
Proof.
  induction rss as [|rs rss IH]; intros ps w Hid Hwf Hps; simpl; [reflexivity|].
  inversion Hwf as [|? ? Hrs Hrest]; subst.
  destruct (step_ok batch (id_of_stop (w_stop w)) w rs Hid Hrs eq_refl) as [H1 [H2 [H3 H4]]].
  destruct (step batch w rs) as [o w'] eqn:Es. cbn [fst snd] in *.
  apply andb_true_iff. split.
  - destruct (r_clear rs); exact H1.
  - rewrite H3. apply IH; assumption.
Qed.

Lemma idle_new orc : Idle (new_world orc).
Proof. constructor; reflexivity. Qed.

Theorem model_meets_spec i : wf i -> spec_okb i (model i) = true.
Proof.
  intro Hwf. unfold spec_okb, model.
  exact (steps_ok (i_batch i) (i_runs i) 0 (new_world (i_oracle i)) (idle_new _) Hwf eq_refl).
Qed.

(* ================= the clauses, on the model's own state ================= *)
(* a reactor at rest, driven by a Spinner that is not inside run(), with the harness's log reset *)
Definition Ready (w : world) : Prop := Idle w /\ w_ran w = [] /\ w_reentry w = [].

(* hs: the start-up hooks somebody registered on the reactor before run() is entered *)
Definition run1 (hs : list hook) (batch : bool) (T : time) (f : fn) (w : world) :=
  run spinner_iterations batch T f (reg_hooks 0 hs w).

Theorem clause_result hs batch T f w : Ready w -> sp_junk (w_sp w) = [] ->
  Allowed (stopped_early hs) T f (w_ran (snd (run1 hs batch T f w))) (fst (run1 hs batch T f w)).
Proof.
  intros [Hid [Hran Hre0]] Hj. unfold run1. rewrite tab_iterations.
  destruct (run_fresh batch T f hs w Hid Hj Hran Hre0) as [r [w' [Er [_ [_ [Hal _]]]]]]. rewrite Er. cbn [fst snd].
  apply allowed_sound. exact Hal.
Qed.

(* when exactly one of the three events is due at the earliest instant, the result is that event's *)
Lemma allowed_unique T f order r k0 :
  is_sync f = false -> f_stop_now f = false -> Allowed false T f order r ->
  (forall k, ev_time T f k = Some (earliest (events T f)) -> k = k0) ->
  r = decided f [k0].
Proof.
  intros Hsy Hsn Hal Hu. unfold Allowed in Hal. unfold is_sync in Hsy. rewrite Hsn in Hal. simpl orb in Hal.
  assert (H : let E := crash_toks order in
              E <> [] /\ (forall k, In k E -> exists t, ev_time T f k = Some t /\ In t (map fst (events T f))
                                                      /\ forall ev, In ev (events T f) -> t <= fst ev)
              /\ r = decided f E).
  { destruct (f_shape f); [discriminate| |]; exact Hal. }
  cbv zeta in H. destruct H as [Hne [Hall ->]].
  assert (Hk : forall k, In k (crash_toks order) -> k = k0).
  { intros k Hin. destruct (Hall k Hin) as [t [Ht [Hin' Hle]]]. apply Hu. rewrite Ht. f_equal.
    destruct (earliest_spec (events T f) (events_ne T f)) as [He1 He2].
    apply in_map_iff in Hin' as [[t' r'] [Ef Hin']]. simpl in Ef. subst t'.
    apply in_map_iff in He1 as [[t2 r2] [Ef2 Hin2]]. simpl in Ef2.
    pose proof (He2 _ Hin') as Ha. pose proof (Hle _ Hin2) as Hb. simpl in Ha, Hb. lia. }
  assert (Hhas : forall j, has j (crash_toks order) = has j [k0]).
  { intro j. destruct (has j (crash_toks order)) eqn:Eh.
    - apply has_In in Eh. apply Hk in Eh. subst. symmetry. apply has_In. left; reflexivity.
    - destruct (has j [k0]) eqn:Eh2; [|reflexivity]. apply has_In in Eh2 as [<-|[]].
      destruct (crash_toks order) as [|e0 er] eqn:Ec; [congruence|].
      assert (e0 = k0) by (apply Hk; left; reflexivity). subst.
      assert (has k0 (k0 :: er) = true) by (apply has_In; left; reflexivity). congruence. }
  unfold decided. rewrite !Hhas. reflexivity.
Qed.

Lemma min_l_lt a b : a < b -> Nat.min a b = a. Proof. intro; apply Nat.min_l; lia. Qed.
Lemma min_r_lt a b : b < a -> Nat.min a b = b. Proof. intro; apply Nat.min_r; lia. Qed.

(* the timings the statement names, without ties: nobody stops the reactor *)
Theorem clause_result_untied hs batch T f w r : Ready w -> sp_junk (w_sp w) = [] -> stopped_early hs = false ->
  f_stop f = None -> f_stop_now f = false -> r = fst (run1 hs batch T f w) ->
  (forall how o, f_shape f = Sync how o -> r = result_of o)
  /\ (forall t o, f_shape f = Later t o -> t < T -> r = result_of o)
  /\ (forall t o, f_shape f = Later t o -> T < t -> r = Raised ETimeout)
  /\ (f_shape f = Never -> r = Raised ETimeout).
Proof.
  intros Hr Hj He Hstop Hsn ->. pose proof (clause_result hs batch T f w Hr Hj) as Hal. rewrite He in Hal.
  repeat split.
  - intros how o Es. unfold Allowed in Hal. rewrite Es in Hal. exact Hal.
  - intros t o Es Hlt. rewrite (allowed_unique T f _ _ 1 ltac:(unfold is_sync; rewrite Es; reflexivity) Hsn Hal).
    + unfold decided. simpl. rewrite Es. reflexivity.
    + unfold events, earliest, ev_time. rewrite Es, Hstop. unfold time in *. simpl.
      rewrite (min_r_lt T (Nat.min t T)) by (rewrite min_l_lt; lia). rewrite min_l_lt by lia.
      intros [|[|[|k]]] H; try reflexivity; try discriminate. injection H as H. lia.
  - intros t o Es Hlt. rewrite (allowed_unique T f _ _ 0 ltac:(unfold is_sync; rewrite Es; reflexivity) Hsn Hal).
    + reflexivity.
    + unfold events, earliest, ev_time. rewrite Es, Hstop. unfold time in *. simpl.
      rewrite (min_r_lt t T) by lia. rewrite Nat.min_id.
      intros [|[|[|k]]] H; try reflexivity; try discriminate. injection H as H. lia.
  - intros Es. rewrite (allowed_unique T f _ _ 0 ltac:(unfold is_sync; rewrite Es; reflexivity) Hsn Hal).
    + reflexivity.
    + unfold events, earliest, ev_time. rewrite Es, Hstop. unfold time in *. simpl. rewrite Nat.min_id.
      intros [|[|[|k]]] H; try reflexivity; discriminate.
Qed.

(* ... and a stop request that comes strictly first: NoResultError *)
Theorem clause_result_stopped hs batch T f w s : Ready w -> sp_junk (w_sp w) = [] -> stopped_early hs = false ->
  is_sync f = false -> f_stop_now f = false -> f_stop f = Some s -> s < T ->
  (forall t o, f_shape f = Later t o -> s < t) ->
  fst (run1 hs batch T f w) = Raised ENoResult.
Proof.
  intros Hr Hj He Hsy Hsn Hstop Hlt Hsh. pose proof (clause_result hs batch T f w Hr Hj) as Hal. rewrite He in Hal.
  rewrite (allowed_unique T f _ _ 2 Hsy Hsn Hal); [reflexivity|].
  unfold events, earliest, ev_time. rewrite Hstop. unfold is_sync in Hsy. unfold time in *.
  destruct (f_shape f) as [|t o|] eqn:Es; [discriminate| |]; simpl.
  - specialize (Hsh t o eq_refl).
    rewrite (min_l_lt s T) by lia. rewrite (min_r_lt t s) by lia. rewrite (min_r_lt T s) by lia.
    intros [|[|[|k]]] H; try reflexivity; try discriminate; injection H as H; lia.
  - rewrite (min_l_lt s T) by lia. rewrite (min_r_lt T s) by lia.
    intros [|[|[|k]]] H; try reflexivity; try discriminate; injection H as H; lia.
Qed.

Theorem clause_reentry hs batch T f w : Ready w -> sp_junk (w_sp w) = [] ->
  (forall b, In b (w_reentry (snd (run1 hs batch T f w))) -> b = true)
  /\ length (f_reenter f) <= length (w_reentry (snd (run1 hs batch T f w)))
  /\ w_flag (snd (run1 hs batch T f w)) = false.
Proof.
  intros [Hid [Hran Hre0]] Hj. unfold run1. rewrite tab_iterations.
  destruct (run_fresh batch T f hs w Hid Hj Hran Hre0) as [r [w' [Er [Hid' [_ [_ [Hr _]]]]]]]. rewrite Er. cbn [snd].
  unfold reentry_okb in Hr. apply andb_true_iff in Hr as [H1 H2]. rewrite forallb_forall in H1.
  split; [intros b Hb; exact (H1 b Hb)|]. split; [apply Nat.leb_le; exact H2 | exact (id_flag _ Hid')].
Qed.

Theorem clause_stale hs batch T f w : Ready w -> sp_junk (w_sp w) <> [] ->
  run1 hs batch T f w = (Raised EStaleJunk, reg_hooks 0 hs w).
Proof.
  intros [Hid _] Hj. destruct (reg_hooks_frame hs w) as [Hf1 [Hf2 _]].
  apply run_stale; [rewrite Hf1; exact (id_flag _ Hid) | rewrite Hf2; exact Hj].
Qed.

Theorem clause_clean hs batch T f w : Ready w ->
  let w' := snd (run1 hs batch T f w) in
  running (w_r w') = false /\ queue (w_r w') = [] /\ readers (w_r w') = [] /\ w_flag w' = false
  /\ (sp_junk (w_sp w) = [] ->
      Permutation (filter nt (w_ran w') ++ filter nt (sp_junk (w_sp w'))) (hook_tokens 0 hs ++ sched_tokens f)
      /\ (In tok_timeout (sp_junk (w_sp w')) -> fst (run1 hs batch T f w) = Raised ENoResult)).
Proof.
  intros [Hid [Hran Hre0]]. cbv zeta. destruct (sp_junk (w_sp w)) as [|j0 jr] eqn:Ej.
  - unfold run1. rewrite tab_iterations.
    destruct (run_fresh batch T f hs w Hid Ej Hran Hre0) as [r [w' [Er [Hid' [_ [_ [_ [Hp [Ho _]]]]]]]]]. rewrite Er. cbn [fst snd].
    destruct Hid'. repeat split; assumption.
  - rewrite (clause_stale hs batch T f w (conj Hid (conj Hran Hre0))) by (rewrite Ej; discriminate). cbn [snd].
    destruct (reg_hooks_frame hs w) as [Hf1 [_ [_ [_ [_ [_ [Hf7 [Hf8 [Hf9 _]]]]]]]]]. rewrite Hf1, Hf7, Hf8, Hf9.
    destruct Hid. repeat split; try assumption; discriminate.
Qed.

Theorem clause_restored hs batch T f w : Ready w ->
  let w' := snd (run1 hs batch T f w) in
  w_stop w' = w_stop w /\ really_stopped (w_r w') = false
  /\ forall s, In s reactor_signals -> getsig s (w_sig w) <> h_none -> getsig s (w_sig w') = getsig s (w_sig w).
Proof.
  intros [Hid [Hran Hre0]]. cbv zeta. destruct (sp_junk (w_sp w)) as [|j0 jr] eqn:Ej.
  - unfold run1. rewrite tab_iterations.
    destruct (run_fresh batch T f hs w Hid Ej Hran Hre0) as [r [w' [Er [Hid' [Hst' [_ [_ [_ [_ Hrest]]]]]]]]]. rewrite Er. cbn [snd].
    split; [exact Hst'|]. split; [exact (id_rs _ Hid')|].
    intros s Hs Hn. apply Hrest; [apply tab_preserved; exact Hs | exact Hn].
  - rewrite (clause_stale hs batch T f w (conj Hid (conj Hran Hre0))) by (rewrite Ej; discriminate). cbn [snd].
    destruct (reg_hooks_frame hs w) as [_ [_ [Hf3 [Hf4 [_ [_ [_ [_ [_ Hf10]]]]]]]]]. rewrite Hf3, Hf4, Hf10.
    split; [reflexivity|]. split; [exact (id_rs _ Hid)|]. reflexivity.
Qed.

(* stopped while starting up: whatever the function returns synchronously is still the result; a Deferred that has
   not fired by then never will - NoResultError, whatever its timing *)
Theorem clause_result_early hs batch T f w : Ready w -> sp_junk (w_sp w) = [] -> stopped_early hs = true ->
  (forall how o, f_shape f = Sync how o -> fst (run1 hs batch T f w) = result_of o)
  /\ (is_sync f = false -> fst (run1 hs batch T f w) = Raised ENoResult).
Proof.
  intros Hr Hj He. pose proof (clause_result hs batch T f w Hr Hj) as Hal. rewrite He in Hal.
  unfold Allowed in Hal. split.
  - intros how o Es. rewrite Es in Hal. exact Hal.
  - intro Hsy. unfold is_sync in Hsy. rewrite orb_true_r in Hal. destruct (f_shape f); [discriminate| |]; exact Hal.
Qed.

Theorem clause_histories i : wf i -> Spec i (model i).
Proof. intro H. apply spec_okb_sound. apply model_meets_spec. exact H. Qed.
