(* C15 - proofs.  Part 1: the reactor's queue.  Part 2: the event loop of one
   Spinner.run on an idle reactor ends with the earliest crashing action.
   Part 3: one run.  Part 4: histories.  Part 5: the statement. *)
From Coq Require Import Permutation.
From TT Require Import Lib.Base Lib.Sort Model.Reactor Model.Spinner Gen.Spinnertabs Spec.C15 Corr.C15.

(* ------------------------------------------------------------------ *)
(* Part 1: queue facts                                                  *)
(* ------------------------------------------------------------------ *)
Section Queue.
  Context {A : Type}.
  Notation dcall := (dcall A).

  Lemma min_time_le (q : list dcall) m c : min_time q = Some m -> In c q -> m <= dc_time c.
  Proof.
    revert m; induction q as [|x r IH]; intros m Hm Hin; [destruct Hin|].
    simpl in Hm. destruct (min_time r) as [m'|] eqn:E; injection Hm as <-.
    - destruct Hin as [->|Hin]; [apply Nat.le_min_l|].
      etransitivity; [apply Nat.le_min_r|]. apply (IH m'); auto.
    - destruct Hin as [->|Hin]; [lia|]. destruct r; [destruct Hin|discriminate].
  Qed.

  Lemma min_time_in (q : list dcall) m : min_time q = Some m -> exists c, In c q /\ dc_time c = m.
  Proof.
    revert m; induction q as [|x r IH]; intros m Hm; [discriminate|].
    simpl in Hm. destruct (min_time r) as [m'|] eqn:E; injection Hm as <-.
    - destruct (Nat.min_dec (dc_time x) m') as [H|H]; rewrite H.
      + exists x; split; [left|]; reflexivity.
      + destruct (IH m' eq_refl) as [c [Hc Ht]]. exists c; split; [right|]; assumption.
    - exists x; split; [left|]; reflexivity.
  Qed.

  Lemma min_time_none (q : list dcall) : min_time q = None -> q = [].
  Proof. destruct q; [reflexivity|discriminate]. Qed.

  Lemma candidates_spec (q : list dcall) c :
    In c (candidates q) -> In c q /\ forall c', In c' q -> dc_time c <= dc_time c'.
  Proof.
    unfold candidates. destruct (min_time q) as [m|] eqn:E; [|intros []].
    intros H. apply filter_In in H as [Hin Ht]. apply Nat.eqb_eq in Ht. split; [exact Hin|].
    intros c' Hc'. rewrite Ht. eapply min_time_le; eauto.
  Qed.

  Lemma candidates_nonempty (q : list dcall) : q <> [] -> candidates q <> [].
  Proof.
    intros Hq. unfold candidates. destruct (min_time q) as [m|] eqn:E.
    - destruct (min_time_in q m E) as [c [Hc Ht]]. intro H.
      assert (In c (filter (fun c => Nat.eqb (dc_time c) m) q)) as Hin.
      { apply filter_In; split; [exact Hc|]. apply Nat.eqb_eq; exact Ht. }
      rewrite H in Hin; destruct Hin.
    - apply min_time_none in E. contradiction.
  Qed.

  Lemma choose_in orc (cands : list dcall) c orc' : choose orc cands = Some (c, orc') -> In c cands.
  Proof.
    unfold choose. destruct cands as [|x [|y r]]; [discriminate| |].
    - intros H; injection H as <- _. left; reflexivity.
    - destruct orc as [|k o]; intros H.
      + injection H as <- _. left; reflexivity.
      + assert (Hlt : k mod length (x :: y :: r) < length (x :: y :: r)).
        { apply Nat.mod_upper_bound. cbn [length]. discriminate. }
        revert H Hlt. generalize (k mod length (x :: y :: r)). intros n H Hlt.
        assert (E : c = nth n (x :: y :: r) x) by congruence.
        rewrite E. apply nth_In. exact Hlt.
  Qed.

  Lemma choose_some orc (cands : list dcall) : cands <> [] -> exists c orc', choose orc cands = Some (c, orc').
  Proof.
    destruct cands as [|x [|y r]]; [contradiction| |]; intros _; simpl.
    - eauto.
    - destruct orc; eauto.
  Qed.

  Lemma pop_next_spec (r : reactor A) c r' :
    pop_next r = Some (c, r') ->
    In c (queue r) /\ (forall c', In c' (queue r) -> dc_time c <= dc_time c')
    /\ queue r' = remove_seq (dc_seq c) (queue r)
    /\ running r' = running r /\ readers r' = readers r /\ hooks r' = hooks r
    /\ really_stopped r' = really_stopped r /\ nextseq r' = nextseq r.
  Proof.
    unfold pop_next. destruct (choose (oracle r) (candidates (queue r))) as [[c0 o]|] eqn:E; [|discriminate].
    intros H; injection H as <- <-. apply choose_in in E. apply candidates_spec in E as [H1 H2].
    simpl. repeat split; auto.
  Qed.

  Lemma pop_next_some (r : reactor A) : queue r <> [] -> exists c r', pop_next r = Some (c, r').
  Proof.
    intros Hq. unfold pop_next.
    destruct (choose_some (oracle r) (candidates (queue r)) (candidates_nonempty _ Hq)) as [c [o E]].
    rewrite E. eauto.
  Qed.

  Lemma remove_seq_in s (q : list dcall) c : In c (remove_seq s q) -> In c q /\ dc_seq c <> s.
  Proof.
    unfold remove_seq. intros H. apply filter_In in H as [H1 H2]. split; [exact H1|].
    apply negb_true_iff in H2. apply Nat.eqb_neq in H2. exact H2.
  Qed.

  Lemma remove_seq_keeps s (q : list dcall) c : In c q -> dc_seq c <> s -> In c (remove_seq s q).
  Proof.
    intros H1 H2. apply filter_In; split; [exact H1|]. apply negb_true_iff. apply Nat.eqb_neq. exact H2.
  Qed.

  Lemma remove_seq_cons s x (r : list dcall) :
    remove_seq s (x :: r) = if negb (dc_seq x =? s) then x :: remove_seq s r else remove_seq s r.
  Proof. reflexivity. Qed.

  Lemma remove_seq_length s (q : list dcall) : length (remove_seq s q) <= length q.
  Proof.
    induction q as [|x r IH]; [simpl; lia|]. rewrite remove_seq_cons.
    destruct (negb (dc_seq x =? s)); simpl; lia.
  Qed.

  Lemma remove_seq_length_lt (q : list dcall) c : In c q -> length (remove_seq (dc_seq c) q) < length q.
  Proof.
    induction q as [|x r IH]; [intros []|]. rewrite remove_seq_cons. intros [->|Hin].
    - rewrite Nat.eqb_refl. cbn [negb]. pose proof (remove_seq_length (dc_seq c) r). simpl; lia.
    - specialize (IH Hin). destruct (negb (dc_seq x =? dc_seq c)); simpl; lia.
  Qed.

  Lemma remove_seq_nodup s (q : list dcall) : NoDup (map dc_seq q) -> NoDup (map dc_seq (remove_seq s q)).
  Proof.
    induction q as [|x r IH]; simpl; [auto|]. intros H. inversion H as [|? ? Hn Hr]; subst.
    destruct (negb (dc_seq x =? s)); simpl; [|auto]. constructor; [|auto].
    intro Hin. apply Hn. apply in_map_iff in Hin as [y [Hy Hin]]. apply in_map_iff. exists y. split; [exact Hy|].
    apply remove_seq_in in Hin as [Hin _]. exact Hin.
  Qed.

  (* with distinct handles, removing the call c removes exactly c *)
  Lemma remove_seq_perm (q : list dcall) c :
    NoDup (map dc_seq q) -> In c q -> Permutation q (c :: remove_seq (dc_seq c) q).
  Proof.
    induction q as [|x r IH]; [intros _ []|]. intros Hnd Hin. inversion Hnd as [|? ? Hn Hr]; subst. simpl.
    destruct Hin as [->|Hin].
    - rewrite Nat.eqb_refl. simpl. apply perm_skip.
      assert (forall y, In y r -> dc_seq y <> dc_seq c) as Hne.
      { intros y Hy E. apply Hn. rewrite <- E. apply in_map. exact Hy. }
      clear -Hne. induction r as [|y r IH]; simpl; [reflexivity|].
      destruct (Nat.eqb_spec (dc_seq y) (dc_seq c)) as [E|E]; simpl.
      + exfalso. apply (Hne y); [left; reflexivity|exact E].
      + apply perm_skip. apply IH. intros z Hz. apply Hne. right; exact Hz.
    - destruct (Nat.eqb_spec (dc_seq x) (dc_seq c)) as [E|E]; simpl.
      + exfalso. apply Hn. rewrite E. apply in_map. exact Hin.
      + etransitivity; [apply perm_skip; apply IH; assumption|]. apply perm_swap.
  Qed.
End Queue.

(* ------------------------------------------------------------------ *)
(* Part 2: the event loop of one run                                    *)
(* ------------------------------------------------------------------ *)
Local Arguments remove_seq : simpl never.
Definition is_timeout (a : action) : bool := match a with ATimeout => true | _ => false end.
Definition crasher (a : action) : bool :=
  match a with ATimeout | AFire _ | AStopReq => true | _ => false end.
(* what run() reports when this action is the one that crashes the reactor *)
Definition act_result (a : action) : res value exc :=
  match a with
  | ATimeout => Raised ETimeout
  | AFire o => result_of o
  | AStopReq => Raised ENoResult
  | _ => Raised EOther
  end.
Definition qtoks (q : list (dcall action)) : list nat :=
  filter not_timeout_tok (map (fun c => tok_of (dc_act c)) q).

Local Arguments qtoks : simpl never.

Lemma qtoks_perm q q' : Permutation q q' -> Permutation (qtoks q) (qtoks q').
Proof.
  intros H. unfold qtoks. induction H; simpl.
  - reflexivity.
  - destruct (not_timeout_tok _); [apply perm_skip|]; assumption.
  - destruct (not_timeout_tok (tok_of (dc_act x))), (not_timeout_tok (tok_of (dc_act y)));
      try reflexivity. apply perm_swap.
  - etransitivity; eassumption.
Qed.

Lemma qtoks_cons c q :
  qtoks (c :: q) = if not_timeout_tok (tok_of (dc_act c)) then tok_of (dc_act c) :: qtoks q else qtoks q.
Proof. reflexivity. Qed.

Lemma qtoks_pop_zero q c q' :
  Permutation q (c :: q') -> not_timeout_tok (tok_of (dc_act c)) = false -> Permutation (qtoks q') (qtoks q).
Proof. intros H E. apply qtoks_perm in H. rewrite qtoks_cons, E in H. symmetry; exact H. Qed.

Lemma qtoks_pop_tok ran q c q' t :
  Permutation q (c :: q') -> tok_of (dc_act c) = t -> not_timeout_tok t = true ->
  Permutation ((ran ++ [t]) ++ qtoks q') (ran ++ qtoks q).
Proof.
  intros H <- E. apply qtoks_perm in H. rewrite qtoks_cons, E in H. rewrite <- app_assoc.
  apply Permutation_app_head. symmetry. exact H.
Qed.

Lemma qtoks_app q q' : qtoks (q ++ q') = qtoks q ++ qtoks q'.
Proof. unfold qtoks. rewrite map_app, filter_app. reflexivity. Qed.

(* cancelling the timeout call does not change the tokens of the function's calls *)
Lemma qtoks_remove_timeout s0 q :
  Forall (fun c => Nat.eqb (dc_seq c) s0 = is_timeout (dc_act c)) q -> qtoks (remove_seq s0 q) = qtoks q.
Proof.
  induction 1 as [|c r Hc Hr IH]; [reflexivity|]. rewrite remove_seq_cons.
  destruct (dc_seq c =? s0) eqn:E; cbn [negb].
  - rewrite IH. unfold qtoks. simpl. destruct (dc_act c); try discriminate. reflexivity.
  - unfold qtoks in *. simpl. rewrite IH. reflexivity.
Qed.

Lemma Forall_remove_seq {A} (P : dcall A -> Prop) s q : Forall P q -> Forall P (remove_seq s q).
Proof.
  intros H. apply Forall_forall. intros c Hc. apply remove_seq_in in Hc as [Hc _].
  eapply Forall_forall in H; eauto.
Qed.

Lemma nodup_seq_inj {A} (q : list (dcall A)) c c' :
  NoDup (map dc_seq q) -> In c q -> In c' q -> dc_seq c = dc_seq c' -> c = c'.
Proof.
  induction q as [|x r IH]; [intros _ []|]. simpl. intros H Hc Hc' E. inversion H as [|? ? Hn Hr]; subst.
  destruct Hc as [->|Hc], Hc' as [->|Hc']; auto.
  - exfalso. apply Hn. rewrite E. apply in_map. exact Hc'.
  - exfalso. apply Hn. rewrite <- E. apply in_map. exact Hc.
Qed.

Record LI (s0 : nat) (w : world) : Prop := {
  li_running : running (w_r w) = true;
  li_spinning : sp_spinning (w_sp w) = true;
  li_stop : w_stop w = SFake;
  li_tc : sp_timeout_call (w_sp w) = Some s0;
  li_succ : sp_success (w_sp w) = None;
  li_fail : sp_failure (w_sp w) = None;
  li_nodup : NoDup (map dc_seq (queue (w_r w)));
  li_seq : Forall (fun c => Nat.eqb (dc_seq c) s0 = is_timeout (dc_act c)) (queue (w_r w));
  li_tok : Forall (fun c => is_timeout (dc_act c) = true \/ not_timeout_tok (tok_of (dc_act c)) = true)
                  (queue (w_r w));
  li_crasher : exists c, In c (queue (w_r w)) /\ crasher (dc_act c) = true
}.

(* what the loop leaves untouched *)
Definition same_env (w w' : world) : Prop :=
  w_sig w' = w_sig w /\ w_flag w' = w_flag w /\ w_stop w' = w_stop w /\ w_reentry w' = w_reentry w
  /\ sp_junk (w_sp w') = sp_junk (w_sp w) /\ sp_saved (w_sp w') = sp_saved (w_sp w)
  /\ readers (w_r w') = readers (w_r w) /\ hooks (w_r w') = hooks (w_r w)
  /\ really_stopped (w_r w') = really_stopped (w_r w).

Record LoopEnd (w w' : world) (c : dcall action) : Prop := {
  le_stopped : running (w_r w') = false;
  le_in : In c (queue (w_r w));
  le_crasher : crasher (dc_act c) = true;
  le_first : forall c', In c' (queue (w_r w)) -> crasher (dc_act c') = true -> dc_time c <= dc_time c';
  le_result : get_result (w_sp w') = act_result (dc_act c);
  le_perm : Permutation (w_ran w' ++ qtoks (queue (w_r w'))) (w_ran w ++ qtoks (queue (w_r w)));
  le_env : same_env w w'
}.

Lemma loop_not_running fuel w :
  running (w_r w) = false -> loop w_r set_r exec_call fuel w = (LDone, w).
Proof. intros H. destruct fuel; simpl; rewrite H; reflexivity. Qed.

Lemma loop_spec s0 : forall fuel w, LI s0 w -> length (queue (w_r w)) <= fuel ->
  exists w' c, loop w_r set_r exec_call fuel w = (LDone, w') /\ LoopEnd w w' c.
Proof.
  induction fuel as [|f IH]; intros w L Hlen.
  - destruct (li_crasher _ _ L) as [c [Hc _]]. destruct (queue (w_r w)); [destruct Hc|simpl in Hlen; lia].
  - destruct (li_crasher _ _ L) as [c0 [Hc0 Hcr0]].
    assert (Hq : queue (w_r w) <> []) by (intro E; rewrite E in Hc0; destruct Hc0).
    destruct (pop_next_some (w_r w) Hq) as [c [r' Hpop]].
    destruct (pop_next_spec _ _ _ Hpop) as (Hin & Hmin & Hq' & Hrun & Hrd & Hhk & Hrs & _).
    cbn [loop]. rewrite (li_running _ _ L). cbn [negb]. rewrite Hpop.
    pose proof (remove_seq_perm _ _ (li_nodup _ _ L) Hin) as Hperm.
    pose proof (remove_seq_length_lt _ _ Hin) as Hlt.
    destruct L as [Lrun Lspin Lstop Ltc Lsucc Lfail Lnd Lseq Ltok _].
    destruct w as [r st sg fl sp ran re]. destruct sp as [su fa jk spin tc sv].
    cbn [w_r w_stop w_sp w_sig w_flag w_ran w_reentry sp_success sp_failure sp_junk sp_spinning
         sp_timeout_call sp_saved] in *.
    subst st spin tc su fa.
    assert (Htokc : is_timeout (dc_act c) = true \/ not_timeout_tok (tok_of (dc_act c)) = true).
    { eapply Forall_forall in Ltok; eauto. }
    assert (Hseqc : Nat.eqb (dc_seq c) s0 = is_timeout (dc_act c)).
    { eapply Forall_forall in Lseq; eauto. }
    unfold exec_call. destruct (dc_act c) as [|o|  |t|T' f'] eqn:Eact.
    + (* the timeout call *)
      eexists. exists c. split.
      * apply loop_not_running.
        unfold timed_out, stop_reactor, set_r, set_sp. cbn. reflexivity.
      * unfold timed_out, stop_reactor, set_r, set_sp. cbn.
        constructor; cbn; auto.
        -- rewrite Eact; reflexivity.
        -- rewrite Eact; reflexivity.
        -- rewrite Hq'. apply Permutation_app_head.
           eapply qtoks_pop_zero; [exact Hperm|]. rewrite Eact. reflexivity.
        -- unfold same_env; cbn. repeat split; auto.
    + (* the function's Deferred fires *)
      eexists. exists c. split.
      * apply loop_not_running.
        unfold stop_reactor, got, cancel_timeout, log_ran, set_r, set_sp, set_ran. cbn.
        destruct o; cbn; reflexivity.
      * unfold stop_reactor, got, cancel_timeout, log_ran, set_r, set_sp, set_ran. cbn.
        destruct o as [v|e]; cbn.
        -- constructor; cbn; auto.
           ++ rewrite Eact; reflexivity.
           ++ rewrite Eact; reflexivity.
           ++ rewrite Hq'. rewrite qtoks_remove_timeout by (apply Forall_remove_seq; exact Lseq).
              eapply qtoks_pop_tok; [exact Hperm|rewrite Eact; reflexivity|reflexivity].
           ++ unfold same_env; cbn. repeat split; auto.
        -- constructor; cbn; auto.
           ++ rewrite Eact; reflexivity.
           ++ rewrite Eact; reflexivity.
           ++ rewrite Hq'. rewrite qtoks_remove_timeout by (apply Forall_remove_seq; exact Lseq).
              eapply qtoks_pop_tok; [exact Hperm|rewrite Eact; reflexivity|reflexivity].
           ++ unfold same_env; cbn. repeat split; auto.
    + (* a stop request *)
      eexists. exists c. split.
      * apply loop_not_running. unfold reactor_stop, log_ran, set_r, set_ran. cbn. reflexivity.
      * unfold reactor_stop, log_ran, set_r, set_ran. cbn.
        constructor; cbn; auto.
        -- rewrite Eact; reflexivity.
        -- rewrite Eact; reflexivity.
        -- rewrite Hq'. eapply qtoks_pop_tok; [exact Hperm|rewrite Eact; reflexivity|reflexivity].
        -- unfold same_env; cbn. repeat split; auto.
    + (* one of the function's idle calls: the loop goes on *)
      assert (Ht : not_timeout_tok t = true) by (destruct Htokc as [H|H]; [discriminate|exact H]).
      set (w1 := log_ran t (set_r r' (mkW r SFake sg fl (mkSp None None jk true (Some s0) sv) ran re))).
      assert (L1 : LI s0 w1).
      { unfold w1, log_ran, set_r, set_ran. constructor; cbn.
        - congruence.
        - reflexivity.
        - reflexivity.
        - reflexivity.
        - reflexivity.
        - reflexivity.
        - rewrite Hq'. apply remove_seq_nodup. exact Lnd.
        - rewrite Hq'. apply Forall_remove_seq. exact Lseq.
        - rewrite Hq'. apply Forall_remove_seq. exact Ltok.
        - exists c0. split; [|exact Hcr0]. rewrite Hq'. apply remove_seq_keeps; [exact Hc0|].
          intro E. assert (c0 = c) by (eapply nodup_seq_inj; eauto). subst c0.
          rewrite Eact in Hcr0. discriminate. }
      assert (Hlen1 : length (queue (w_r w1)) <= f).
      { unfold w1, log_ran, set_r, set_ran. cbn. rewrite Hq'. lia. }
      destruct (IH w1 L1 Hlen1) as [w' [c' [Hloop E]]].
      exists w', c'. split; [exact Hloop|].
      destruct E as [E1 E2 E3 E4 E5 E6 E7].
      unfold w1, log_ran, set_r, set_ran in E2, E4, E6, E7. cbn in E2, E4, E6, E7. rewrite Hq' in *.
      constructor; cbn; auto.
      * apply remove_seq_in in E2 as [E2 _]. exact E2.
      * intros c'' Hc'' Hcr''. apply E4; [|exact Hcr''].
        apply remove_seq_keeps; [exact Hc''|]. intro E.
        assert (c'' = c) by (eapply nodup_seq_inj; eauto). subst c''. rewrite Eact in Hcr''. discriminate.
      * rewrite E6. eapply qtoks_pop_tok; [exact Hperm|rewrite Eact; reflexivity|exact Ht].
      * unfold same_env in *. cbn in *. rewrite Hrd, Hhk, Hrs in E7. exact E7.
    + (* the startup hook is never a delayed call *)
      destruct Htokc as [H|H]; discriminate.
Qed.

(* ------------------------------------------------------------------ *)
(* Part 3: one run on an idle reactor                                   *)
(* ------------------------------------------------------------------ *)
Lemma spinner_iterations_0 : spinner_iterations = 0.
Proof. reflexivity. Qed.

(* what reactor.run() clobbers is among what Spinner preserves (table obligation) *)
Lemma reactor_signals_preserved : forall s, In s reactor_signals -> In s preserved_signals.
Proof.
  intros s H. apply (proj1 (forallb_forall (fun s => existsb (Nat.eqb s) preserved_signals) reactor_signals)
                           eq_refl) in H.
  apply existsb_exists in H as [x [Hx E]]. apply Nat.eqb_eq in E. subst. exact Hx.
Qed.

Fixpoint extras_calls (n s i : nat) (ds : list time) : list (dcall action) :=
  match ds with
  | [] => []
  | d :: r => mkCall (n + d) s (ANoop (tok_extra i)) :: extras_calls n (S s) (S i) r
  end.

Lemma schedule_extras_spec ds : forall i n s q hk rd rn rs orc st sg fl sp ran re,
  schedule_extras i ds (mkW (mkReactor n s q hk rd rn rs orc) st sg fl sp ran re)
  = mkW (mkReactor n (s + length ds) (q ++ extras_calls n s i ds) hk rd rn rs orc) st sg fl sp ran re.
Proof.
  induction ds as [|d r IH]; intros; cbn [schedule_extras extras_calls length].
  - rewrite Nat.add_0_r, app_nil_r. reflexivity.
  - unfold later, call_later, set_r. cbn. rewrite IH. rewrite <- app_assoc. cbn [app].
    rewrite Nat.add_succ_r. reflexivity.
Qed.

Lemma add_sels_spec k : forall j n s q hk rd rn rs orc st sg fl sp ran re,
  add_sels j k (mkW (mkReactor n s q hk rd rn rs orc) st sg fl sp ran re)
  = mkW (mkReactor n s q hk (rd ++ map tok_sel (seq j k)) rn rs orc) st sg fl sp ran re.
Proof.
  induction k as [|k IH]; intros; cbn [add_sels seq map].
  - rewrite app_nil_r. reflexivity.
  - unfold add_reader, set_readers, set_r. cbn. rewrite IH. rewrite <- app_assoc. reflexivity.
Qed.

Lemma extras_seqs ds : forall n s i, map dc_seq (extras_calls n s i ds) = seq s (length ds).
Proof. induction ds as [|d r IH]; intros; simpl; [reflexivity|]. rewrite IH. reflexivity. Qed.

Lemma extras_acts ds : forall n s i c, In c (extras_calls n s i ds) -> exists j, dc_act c = ANoop (tok_extra j).
Proof.
  induction ds as [|d r IH]; intros n s i c H; [destruct H|]. destruct H as [<-|H]; [eexists; reflexivity|].
  eapply IH; eauto.
Qed.

Lemma qtoks_extras ds : forall n s i, qtoks (extras_calls n s i ds) = map tok_extra (seq i (length ds)).
Proof.
  induction ds as [|d r IH]; intros; [reflexivity|]. cbn [extras_calls length seq map].
  rewrite qtoks_cons. cbn [dc_act tok_of]. rewrite IH. reflexivity.
Qed.

(* the function's own part of run_function, before what it returns is looked at *)
Definition fn_prefix (inner : world -> res value exc * world) (f : fn) (w : world) : world :=
  let w := schedule_extras 0 (f_extras f) w in
  let w := add_sels 0 (f_sels f) w in
  let w := match f_stop f with Some s => later s AStopReq w | None => w end in
  let w := match f_setsig f with Some (s, h) => set_sig (setsig s h (w_sig w)) w | None => w end in
  let w := if f_reenter f
           then let '(r, w') := inner w in set_reentry (Some (is_reentry r)) w'
           else w in
  if f_stop_now f then reactor_stop w else w.

Lemma run_function_eq inner f w :
  run_function inner f w =
  match f_shape f with
  | Sync _ o => stop_reactor (got o (fn_prefix inner f w))
  | Later t o => later t (AFire o) (fn_prefix inner f w)
  | Never => fn_prefix inner f w
  end.
Proof. reflexivity. Qed.

(* C15_reentry at the level of the model's functions *)
Lemma guarded_refuses body w : w_flag w = true -> guarded body w = (Raised EReentry, w).
Proof. intros H. unfold guarded. rewrite H. reflexivity. Qed.

Definition stop_calls (n s : nat) (f : fn) : list (dcall action) :=
  match f_stop f with Some d => [mkCall (n + d) s AStopReq] | None => [] end.
Definition sig_after_fn (f : fn) (sg : sigtab) : sigtab :=
  match f_setsig f with Some (s, h) => setsig s h sg | None => sg end.

Lemma fn_prefix_spec iters f n s q orc sg sp ran re :
  fn_prefix (inner_run iters) f (mkW (mkReactor n s q [] [] true false orc) SFake sg true sp ran re)
  = mkW (mkReactor n (s + length (f_extras f) + length (stop_calls n (s + length (f_extras f)) f))
                   (q ++ extras_calls n s 0 (f_extras f) ++ stop_calls n (s + length (f_extras f)) f)
                   [] (map tok_sel (seq 0 (f_sels f))) (negb (f_stop_now f)) false orc)
        SFake (sig_after_fn f sg) true sp ran (if f_reenter f then Some true else re).
Proof.
  unfold fn_prefix. rewrite schedule_extras_spec, add_sels_spec. cbn [app].
  unfold stop_calls, sig_after_fn.
  destruct (f_stop f) as [d|]; destruct (f_setsig f) as [[a h]|]; destruct (f_reenter f); destruct (f_stop_now f);
    unfold later, call_later, set_r, set_sig, set_reentry, reactor_stop, inner_run;
    cbn; rewrite ?guarded_refuses by reflexivity; cbn;
    rewrite <- ?app_assoc, ?app_nil_r, ?Nat.add_0_r, ?Nat.add_1_r; reflexivity.
Qed.

Definition fire_calls (n s : nat) (f : fn) : list (dcall action) :=
  match f_shape f with Later t o => [mkCall (n + t) s (AFire o)] | _ => [] end.

(* everything in the reactor's queue once the function has returned (nothing cancelled yet) *)
Definition Q0 (n s : nat) (T : time) (f : fn) : list (dcall action) :=
  let s1 := S s + length (f_extras f) in
  mkCall (n + T) s ATimeout
  :: extras_calls n (S s) 0 (f_extras f)
  ++ stop_calls n s1 f
  ++ fire_calls n (s1 + length (stop_calls n s1 f)) f.

Local Arguments Q0 : simpl never.

Lemma Q0_length n s T f : length (Q0 n s T f) <= length (f_extras f) + 3.
Proof.
  unfold Q0, stop_calls, fire_calls. cbn [length]. rewrite !app_length.
  assert (length (extras_calls n (S s) 0 (f_extras f)) = length (f_extras f)) as ->.
  { rewrite <- (map_length dc_seq), extras_seqs, seq_length. reflexivity. }
  destruct (f_stop f), (f_shape f); simpl; lia.
Qed.

Lemma Q0_seqs n s T f : map dc_seq (Q0 n s T f) = seq s (length (Q0 n s T f)).
Proof.
  unfold Q0. cbn [map dc_seq length seq]. f_equal.
  rewrite !map_app, !app_length, extras_seqs.
  assert (length (extras_calls n (S s) 0 (f_extras f)) = length (f_extras f)) as ->.
  { rewrite <- (map_length dc_seq), extras_seqs, seq_length. reflexivity. }
  rewrite seq_app. f_equal. rewrite seq_app. unfold stop_calls, fire_calls.
  destruct (f_stop f), (f_shape f); simpl; rewrite ?Nat.add_0_r, ?Nat.add_1_r; reflexivity.
Qed.

Lemma Q0_nodup n s T f : NoDup (map dc_seq (Q0 n s T f)).
Proof. rewrite Q0_seqs. apply seq_NoDup. Qed.

Lemma Q0_tail_seq n s T f c :
  In c (tl (Q0 n s T f)) -> s < dc_seq c /\ is_timeout (dc_act c) = false
                            /\ not_timeout_tok (tok_of (dc_act c)) = true.
Proof.
  intros H. split.
  - assert (In (dc_seq c) (tl (map dc_seq (Q0 n s T f)))) as Hs.
    { unfold Q0 in *. cbn [map tl] in *. apply in_map. exact H. }
    rewrite Q0_seqs in Hs. unfold Q0 in Hs. cbn [length seq tl] in Hs. apply in_seq in Hs. lia.
  - unfold Q0 in H. cbn [tl] in H. apply in_app_or in H as [H|H].
    + apply extras_acts in H as [j ->]. split; reflexivity.
    + apply in_app_or in H as [H|H].
      * unfold stop_calls in H. destruct (f_stop f); [|destruct H]. destruct H as [<-|[]]. split; reflexivity.
      * unfold fire_calls in H. destruct (f_shape f) as [? ?|t o|]; [destruct H| |destruct H].
        destruct H as [<-|[]]. split; reflexivity.
Qed.

Lemma Q0_seq_inv n s T f :
  Forall (fun c => Nat.eqb (dc_seq c) s = is_timeout (dc_act c)) (Q0 n s T f).
Proof.
  apply Forall_forall. intros c H. change (Q0 n s T f) with (mkCall (n + T) s ATimeout :: tl (Q0 n s T f)) in H.
  destruct H as [<-|H]; [simpl; apply Nat.eqb_refl|].
  apply Q0_tail_seq in H as (H1 & H2 & _). rewrite H2. apply Nat.eqb_neq. lia.
Qed.

Lemma Q0_tok_inv n s T f :
  Forall (fun c => is_timeout (dc_act c) = true \/ not_timeout_tok (tok_of (dc_act c)) = true) (Q0 n s T f).
Proof.
  apply Forall_forall. intros c H. change (Q0 n s T f) with (mkCall (n + T) s ATimeout :: tl (Q0 n s T f)) in H.
  destruct H as [<-|H]; [left; reflexivity|]. apply Q0_tail_seq in H as (_ & _ & H). right; exact H.
Qed.

Lemma Q0_toks n s T f :
  qtoks (Q0 n s T f) ++ map tok_sel (seq 0 (f_sels f)) = sched_tokens f.
Proof.
  unfold Q0, sched_tokens. rewrite qtoks_cons. cbn [dc_act tok_of not_timeout_tok tok_timeout Nat.eqb negb].
  rewrite !qtoks_app, qtoks_extras, <- !app_assoc. f_equal. f_equal.
  - unfold stop_calls. destruct (f_stop f); reflexivity.
  - f_equal. unfold fire_calls. destruct (f_shape f); reflexivity.
Qed.

(* the crashing calls in the queue are exactly the events the statement speaks of *)
Lemma crasher_event n s T f c :
  In c (Q0 n s T f) -> crasher (dc_act c) = true ->
  exists t, dc_time c = n + t /\ In (t, act_result (dc_act c)) (events T f).
Proof.
  unfold Q0, events. intros [<-|H] Hc.
  - exists T. split; [reflexivity|]. left; reflexivity.
  - apply in_app_or in H as [H|H].
    + apply extras_acts in H as [j E]. rewrite E in Hc. discriminate.
    + apply in_app_or in H as [H|H].
      * unfold stop_calls in H. destruct (f_stop f) as [d|]; [|destruct H]. destruct H as [<-|[]].
        exists d. split; [reflexivity|]. right. apply in_or_app. right. left; reflexivity.
      * unfold fire_calls in H. destruct (f_shape f) as [? ?| t o |]; [destruct H| |destruct H].
        destruct H as [<-|[]].
        exists t. split; [reflexivity|]. right. apply in_or_app. left. left; reflexivity.
Qed.

Lemma event_crasher n s T f ev :
  In ev (events T f) -> exists c, In c (Q0 n s T f) /\ crasher (dc_act c) = true /\ dc_time c = n + fst ev.
Proof.
  unfold Q0, events. intros [<-|H].
  - eexists. split; [left; reflexivity|]. split; reflexivity.
  - apply in_app_or in H as [H|H].
    + destruct (f_shape f) as [? ?| t o |] eqn:E; [destruct H| |destruct H]. destruct H as [<-|[]].
      eexists. split; [right; apply in_or_app; right; apply in_or_app; right; unfold fire_calls; rewrite E;
                       left; reflexivity|]. split; reflexivity.
    + destruct (f_stop f) as [d|] eqn:E; [|destruct H]. destruct H as [<-|[]].
      eexists. split; [right; apply in_or_app; right; apply in_or_app; left; unfold stop_calls; rewrite E;
                       left; reflexivity|]. split; reflexivity.
Qed.

(* the world in which the startup hook runs the function *)
Definition wB (n s : nat) (T : time) (orc : list nat) (sg saved : sigtab) (ran : list nat) (re : option bool) : world :=
  mkW (mkReactor n (S s) [mkCall (n + T) s ATimeout] [] [] true false orc) SFake sg true
      (mkSp None None [] true (Some s) saved) ran re.

Record AfterLoop (T : time) (f : fn) (n s : nat) (sg saved : sigtab) (ran : list nat) (re : option bool)
       (wL : world) : Prop := {
  al_stopped : running (w_r wL) = false;
  al_allowed : Allowed T f (get_result (w_sp wL));
  al_perm : Permutation (w_ran wL ++ qtoks (queue (w_r wL))) (ran ++ qtoks (Q0 n s T f));
  al_sig : w_sig wL = sig_after_fn f sg;
  al_flag : w_flag wL = true;
  al_stop : w_stop wL = SFake;
  al_reentry : w_reentry wL = (if f_reenter f then Some true else re);
  al_junk : sp_junk (w_sp wL) = [];
  al_saved : sp_saved (w_sp wL) = saved;
  al_readers : readers (w_r wL) = map tok_sel (seq 0 (f_sels f));
  al_hooks : hooks (w_r wL) = [];
  al_rs : really_stopped (w_r wL) = false
}.

Lemma async_world iters T f n s orc sg saved ran re :
  (forall h o, f_shape f <> Sync h o) ->
  exists s3,
    run_function (inner_run iters) f (wB n s T orc sg saved ran re)
    = mkW (mkReactor n s3 (Q0 n s T f) [] (map tok_sel (seq 0 (f_sels f))) (negb (f_stop_now f)) false orc)
          SFake (sig_after_fn f sg) true (mkSp None None [] true (Some s) saved) ran
          (if f_reenter f then Some true else re).
Proof.
  intros Hsh. rewrite run_function_eq. unfold wB. rewrite fn_prefix_spec. unfold Q0, fire_calls.
  destruct (f_shape f) as [h o|t o|].
  - exfalso. eapply Hsh; reflexivity.
  - eexists. unfold later, call_later, set_r. cbn. rewrite <- !app_assoc. reflexivity.
  - eexists. rewrite app_nil_r. reflexivity.
Qed.

Lemma hook_and_loop T f n s orc sg saved ran re fuel :
  length (f_extras f) + 3 <= fuel ->
  exists wL,
    loop w_r set_r exec_call fuel
         (run_function (inner_run spinner_iterations) f (wB n s T orc sg saved ran re)) = (LDone, wL)
    /\ AfterLoop T f n s sg saved ran re wL.
Proof.
  intros Hfuel. destruct (f_shape f) as [h o|t o|] eqn:Esh.
  - (* a synchronous result: the callbacks crash the reactor from the startup hook *)
    rewrite run_function_eq, Esh. unfold wB. rewrite fn_prefix_spec.
    assert (EQ : [mkCall (n + T) s ATimeout] ++ extras_calls n (S s) 0 (f_extras f)
                 ++ stop_calls n (S s + length (f_extras f)) f = Q0 n s T f).
    { unfold Q0, fire_calls. rewrite Esh, app_nil_r. reflexivity. }
    rewrite EQ.
    eexists. split.
    + apply loop_not_running. unfold stop_reactor, got, cancel_timeout, set_r, set_sp. cbn.
      destruct o; cbn; reflexivity.
    + unfold stop_reactor, got, cancel_timeout, set_r, set_sp. cbn.
      destruct o as [v|e]; cbn; (constructor; cbn; auto;
        [unfold Allowed; rewrite Esh; reflexivity
        |rewrite qtoks_remove_timeout by apply Q0_seq_inv; reflexivity]).
  - (* a Deferred *)
    destruct (async_world spinner_iterations T f n s orc sg saved ran re) as [s3 ->];
      [intros; rewrite Esh; discriminate|].
    destruct (f_stop_now f) eqn:Enow; cbn [negb].
    + eexists. split; [apply loop_not_running; reflexivity|].
      constructor; cbn; auto. unfold Allowed. rewrite Esh, Enow. reflexivity.
    + match goal with |- exists wL, loop _ _ _ _ ?w = _ /\ _ => set (wF := w) end.
      assert (L : LI s wF).
      { unfold wF. constructor; cbn; auto.
        - apply Q0_nodup.
        - apply Q0_seq_inv.
        - apply Q0_tok_inv.
        - exists (mkCall (n + T) s ATimeout). split; [left; reflexivity|reflexivity]. }
      destruct (loop_spec s fuel wF L) as [wL [c [Hloop E]]].
      { unfold wF; cbn. pose proof (Q0_length n s T f). lia. }
      exists wL. split; [exact Hloop|].
      destruct E as [E1 E2 E3 E4 E5 E6 E7]. unfold wF in *. cbn in E2, E4, E6, E7.
      destruct E7 as (F1 & F2 & F3 & F4 & F5 & F6 & F7 & F8 & F9). cbn in *.
      constructor; auto.
      rewrite E5. unfold Allowed. rewrite Esh, Enow.
      destruct (crasher_event _ _ _ _ _ E2 E3) as [tc [Htc Hev]].
      exists tc. split; [exact Hev|]. intros ev Hin.
      destruct (event_crasher n s T f ev Hin) as [c' [Hc' [Hcr' Ht']]].
      specialize (E4 c' Hc' Hcr'). lia.
  - destruct (async_world spinner_iterations T f n s orc sg saved ran re) as [s3 ->];
      [intros; rewrite Esh; discriminate|].
    destruct (f_stop_now f) eqn:Enow; cbn [negb].
    + eexists. split; [apply loop_not_running; reflexivity|].
      constructor; cbn; auto. unfold Allowed. rewrite Esh, Enow. reflexivity.
    + match goal with |- exists wL, loop _ _ _ _ ?w = _ /\ _ => set (wF := w) end.
      assert (L : LI s wF).
      { unfold wF. constructor; cbn; auto.
        - apply Q0_nodup.
        - apply Q0_seq_inv.
        - apply Q0_tok_inv.
        - exists (mkCall (n + T) s ATimeout). split; [left; reflexivity|reflexivity]. }
      destruct (loop_spec s fuel wF L) as [wL [c [Hloop E]]].
      { unfold wF; cbn. pose proof (Q0_length n s T f). lia. }
      exists wL. split; [exact Hloop|].
      destruct E as [E1 E2 E3 E4 E5 E6 E7]. unfold wF in *. cbn in E2, E4, E6, E7.
      destruct E7 as (F1 & F2 & F3 & F4 & F5 & F6 & F7 & F8 & F9). cbn in *.
      constructor; auto.
      rewrite E5. unfold Allowed. rewrite Esh, Enow.
      destruct (crasher_event _ _ _ _ _ E2 E3) as [tc [Htc Hev]].
      exists tc. split; [exact Hev|]. intros ev Hin.
      destruct (event_crasher n s T f ev Hin) as [c' [Hc' [Hcr' Ht']]].
      specialize (E4 c' Hc' Hcr'). lia.
Qed.
