(* C12 - proofs.  Thread-level lemmas (shapes of program counters, normalisation, the sequential
   meaning of a thread) come first and are reused by Proof/C13.v; the invariants over all
   schedules follow. *)
From TT Require Import Lib.Base Model.Tfr Spec.C12 Corr.C12.

(* ====================================================================================== *)
(* 0. the comparison functions decide equality                                              *)
(* ====================================================================================== *)
Lemma nat_eqb_spec a b : (a =? b) = true <-> a = b.
Proof. apply Nat.eqb_eq. Qed.

Lemma tv_eqb_spec a b : tv_eqb a b = true <-> a = b.
Proof.
  destruct a, b; simpl; split; intro H; try reflexivity; try discriminate.
  - apply Nat.eqb_eq in H; congruence.
  - injection H as ->; apply Nat.eqb_refl.
Qed.
Lemma kind_eqb_spec a b : kind_eqb a b = true <-> a = b.
Proof. destruct a, b; simpl; split; intro H; try reflexivity; discriminate. Qed.
Lemma guard_eqb_spec a b : guard_eqb a b = true <-> a = b.
Proof. destruct a, b; simpl; split; intro H; try reflexivity; discriminate. Qed.
Lemma tags2_eqb_spec a b : tags2_eqb a b = true <-> a = b.
Proof. apply pair_eqb_spec; apply list_eqb_spec; apply nat_eqb_spec. Qed.

Lemma tcall_eqb_spec a b : tcall_eqb a b = true <-> a = b.
Proof.
  destruct a, b; simpl; split; intro H; try discriminate.
  - apply tv_eqb_spec in H; congruence.
  - injection H as ->; apply tv_eqb_spec; reflexivity.
  - apply Nat.eqb_eq in H; congruence.
  - injection H as ->; apply Nat.eqb_refl.
  - apply tags2_eqb_spec in H; congruence.
  - injection H as ->; apply tags2_eqb_spec; reflexivity.
  - apply andb_true_iff in H as [H1 H2]. apply kind_eqb_spec in H1. apply Nat.eqb_eq in H2. subst; reflexivity.
  - injection H as -> ->. apply andb_true_iff; split; [apply kind_eqb_spec; reflexivity | apply Nat.eqb_refl].
  - apply Nat.eqb_eq in H; congruence.
  - injection H as ->; apply Nat.eqb_refl.
  - apply guard_eqb_spec in H; congruence.
  - injection H as ->; apply guard_eqb_spec; reflexivity.
Qed.

Lemma gev_eqb_spec a b : gev_eqb a b = true <-> a = b.
Proof.
  destruct a, b; simpl; split; intro H; try reflexivity; try discriminate.
  - apply andb_true_iff in H as [H1 H2]. apply tcall_eqb_spec in H1. apply (proj1 (bool_eqb_spec _ _)) in H2. congruence.
  - injection H as -> ->. apply andb_true_iff; split; [apply tcall_eqb_spec | apply bool_eqb_spec]; reflexivity.
Qed.

Lemma ev_eqb_spec a b : ev_eqb a b = true <-> a = b.
Proof. apply pair_eqb_spec; [apply nat_eqb_spec | apply gev_eqb_spec]. Qed.

Lemma aobs_eqb_spec a b : aobs_eqb a b = true <-> a = b.
Proof.
  destruct a as [l1 t1 s1 d1 w1], b as [l2 t2 s2 d2 w2]; unfold aobs_eqb; simpl; split; intro H.
  - apply andb_true_iff in H as [H H5]. apply andb_true_iff in H as [H H4]. apply andb_true_iff in H as [H H3].
    apply andb_true_iff in H as [H1 H2].
    apply (list_eqb_spec _ ev_eqb_spec) in H1. apply (list_eqb_spec _ (list_eqb_spec _ gev_eqb_spec)) in H2.
    apply (proj1 (bool_eqb_spec _ _)) in H3. apply (proj1 (bool_eqb_spec _ _)) in H4.
    apply (list_eqb_spec _ bool_eqb_spec) in H5. congruence.
  - injection H as -> -> -> -> ->. repeat (apply andb_true_iff; split).
    + apply (list_eqb_spec _ ev_eqb_spec); reflexivity.
    + apply (list_eqb_spec _ (list_eqb_spec _ gev_eqb_spec)); reflexivity.
    + apply bool_eqb_spec; reflexivity.
    + apply bool_eqb_spec; reflexivity.
    + apply (list_eqb_spec _ bool_eqb_spec); reflexivity.
Qed.

Lemma obs_eqb_spec a b : obs_eqb a b = true <-> alpha a = alpha b.
Proof. apply aobs_eqb_spec. Qed.

(* where every thread is well-formed nothing is forgotten *)
Lemma alpha_exact a b : forallb (fun x => x) (o_wf a) = true -> alpha a = alpha b -> a = b.
Proof.
  destruct a as [l1 s1 d1 w1], b as [l2 s2 d2 w2]. unfold alpha. simpl. intros Hw H.
  injection H as H1 _ H3 H4 H5. subst. rewrite Hw in H1. subst. reflexivity.
Qed.

(* ====================================================================================== *)
(* 1. lists                                                                                 *)
(* ====================================================================================== *)
Lemma nth_upd_same {A} (l : list A) i x y : nth_error l i = Some y -> nth_error (upd l i x) i = Some x.
Proof. revert i; induction l as [|a l IH]; intros [|i] H; simpl in *; try discriminate; auto. Qed.
Lemma nth_upd_other {A} (l : list A) i j x : i <> j -> nth_error (upd l i x) j = nth_error l j.
Proof. revert i j; induction l as [|a l IH]; intros [|i] [|j] H; simpl; auto; try congruence. Qed.
Lemma length_upd {A} (l : list A) i x : length (upd l i x) = length l.
Proof. revert i; induction l as [|a l IH]; intros [|i]; simpl; auto. Qed.

Lemma forallb_idx_spec {A} (p : nat -> A -> bool) l : forall k,
  forallb_idx p k l = true <-> (forall t x, nth_error l t = Some x -> p (k + t) x = true).
Proof.
  induction l as [|a l IH]; intro k; simpl.
  - split; [intros _ [|t] x H; discriminate | reflexivity].
  - rewrite andb_true_iff, IH. split.
    + intros [Ha Hl] [|t] x H; simpl in H.
      * injection H as <-. rewrite Nat.add_0_r. exact Ha.
      * specialize (Hl t x H). rewrite <- Nat.add_succ_comm. exact Hl.
    + intros H. split.
      * specialize (H 0 a eq_refl). rewrite Nat.add_0_r in H. exact H.
      * intros t x Ht. specialize (H (S t) x Ht). rewrite <- Nat.add_succ_comm in H. exact H.
Qed.

(* ====================================================================================== *)
(* 2. shapes of program counters                                                            *)
(* ====================================================================================== *)
(* win: inside a critical section - whatever the target does, the next operations on shared
   objects are target calls and then a release; wout: outside - finished with the call, or about
   to acquire.  (The two shapes of notes/prototypes/Tfr_sketch.v.) *)
Fixpoint win (p : prog) : bool :=
  match p with
  | PRel r => wout r
  | PCall _ h r => win h && win r
  | PLoc _ r => win r
  | _ => false
  end
with wout (p : prog) : bool :=
  match p with
  | PEnd | PRaise => true
  | PAcq r => win r
  | PLoc _ r => wout r
  | _ => false
  end.

(* settled: no pending thread-local work; normal form: settled and not in the raised state *)
Definition nfb (p : prog) : bool := match p with PLoc _ _ | PRaise => false | _ => true end.

Lemma win_calls_then cs h r : win h = true -> win r = true -> win (calls_then cs h r) = true.
Proof. intros Hh Hr; induction cs as [|c cs IH]; simpl; [exact Hr | rewrite Hh, IH; reflexivity]. Qed.

Lemma expand_wout f c : wout (expand f c) = true.
Proof.
  destruct c as [a|n g|n|n|k n|g|]; simpl; try reflexivity.
  - apply win_calls_then; reflexivity.
  - destruct g; reflexivity.
Qed.

Lemma settle_win p : forall f, win p = true -> win (fst (settle p f)) = true.
Proof. induction p; intros f H; simpl in *; try discriminate; auto. Qed.
Lemma settle_wout p : forall f, wout p = true -> wout (fst (settle p f)) = true.
Proof. induction p; intros f H; simpl in *; try discriminate; auto. Qed.
Lemma settle_not_loc p : forall f o r, fst (settle p f) <> PLoc o r.
Proof. induction p; intros f o' r'; simpl; try discriminate; auto. Qed.

Lemma settle_cases p f :
  let q := fst (settle p f) in
  q = PEnd \/ q = PRaise \/ (exists r, q = PAcq r) \/ (exists r, q = PRel r) \/ (exists c h r, q = PCall c h r).
Proof.
  simpl. destruct (fst (settle p f)) eqn:E; eauto 10.
  exfalso; eapply settle_not_loc; eauto.
Qed.

(* what load returns *)
Lemma load_shape cont s : forall f,
  let '(p, s', f') := load cont s f in
  wout p = true /\ (p = PEnd -> s' = []) /\ (cont = true -> p <> PRaise) /\ (forall o r, p <> PLoc o r).
Proof.
  induction s as [|c r IH]; intro f; simpl.
  - repeat split; try discriminate.
  - pose proof (settle_wout (expand f c) f (expand_wout f c)) as Hw.
    pose proof (settle_not_loc (expand f c) f) as Hl.
    destruct (settle (expand f c) f) as [p f'] eqn:E; simpl in *.
    destruct p as [| |r0|r0|c0 h0 r0|o0 r0].
    + apply IH.
    + destruct cont.
      * apply IH.
      * repeat split; try discriminate.
    + repeat split; try discriminate; assumption.
    + discriminate.
    + discriminate.
    + exfalso; eapply Hl; eauto.
Qed.

Lemma resume_shape fbs : forall f,
  let '(p, s', f', fbs') := resume fbs f in
  wout p = true /\ (p = PEnd -> s' = []) /\ nfb p = true.
Proof.
  induction fbs as [|s r IH]; intro f; simpl.
  - repeat split.
  - pose proof (load_shape false s f) as H.
    destruct (load false s f) as [[p s'] f'].
    destruct H as (Hw & He & _ & Hl).
    destruct p as [| |r0|r0|c0 h0 r0|o0 r0]; simpl in Hw; try discriminate.
    + repeat split; auto.
    + apply IH.
    + repeat split; try discriminate; assumption.
    + exfalso; eapply Hl; eauto.
Qed.

(* a thread is in normal form: settled, not in the raised state, and finished only with an empty script *)
Definition tnf (th : thread) : Prop := nfb (pc th) = true /\ (pc th = PEnd -> script th = []).

Lemma norm_pc_in th : win (pc th) = true ->
  pc (norm th) = fst (settle (pc th) (fw th)) /\ script (norm th) = script th /\ fb (norm th) = fb th.
Proof.
  intro H. unfold norm.
  pose proof (settle_win (pc th) (fw th) H) as Hw.
  destruct (settle (pc th) (fw th)) as [p f]; simpl in *.
  destruct p; simpl in Hw; try discriminate; destruct (fb th); simpl; auto.
Qed.

Lemma norm_in th : win (pc th) = true -> win (pc (norm th)) = true /\ nfb (pc (norm th)) = true.
Proof.
  intro H. destruct (norm_pc_in th H) as (E & _ & _). rewrite E.
  pose proof (settle_win (pc th) (fw th) H) as Hw.
  split; [exact Hw|].
  destruct (settle_cases (pc th) (fw th)) as [E1|[E1|[[r E1]|[[r E1]|[c [h [r E1]]]]]]];
    simpl in E1; rewrite E1 in *; simpl in *; try discriminate; reflexivity.
Qed.

Lemma load_true_tnf s f :
  let '(p, s', f') := load true s f in wout p = true /\ nfb p = true /\ (p = PEnd -> s' = []).
Proof.
  pose proof (load_shape true s f) as HL.
  destruct (load true s f) as [[p s'] f']. destruct HL as (H1 & H2 & H3 & H4).
  repeat split; auto.
  destruct p; simpl; try reflexivity.
  - exfalso; apply H3; reflexivity.
  - exfalso; eapply H4; eauto.
Qed.

Lemma norm_out th : wout (pc th) = true -> wout (pc (norm th)) = true /\ tnf (norm th).
Proof.
  intro H. unfold norm, tnf.
  pose proof (settle_wout (pc th) (fw th) H) as Hw.
  pose proof (settle_not_loc (pc th) (fw th)) as Hl.
  destruct (settle (pc th) (fw th)) as [p f]; simpl in *.
  destruct p as [| |r0|r0|c0 h0 r0|o0 r0]; simpl in Hw; try discriminate.
  - (* PEnd *)
    destruct (fb th) as [fbs|].
    + pose proof (load_shape false (script th) f) as HL.
      destruct (load false (script th) f) as [[p' s'] f']. destruct HL as (H1 & H2 & _ & H4).
      destruct p' as [| |r1|r1|c1 h1 r1|o1 r1]; simpl in H1; try discriminate.
      * simpl. repeat split; auto.
      * pose proof (resume_shape fbs f') as HR.
        destruct (resume fbs f') as [[[p'' s''] f''] fbs']. simpl. destruct HR as (R1 & R2 & R3). repeat split; auto.
      * simpl. repeat split; auto; discriminate.
      * exfalso; eapply H4; eauto.
    + pose proof (load_true_tnf (script th) f) as HL.
      destruct (load true (script th) f) as [[p' s'] f']. simpl. destruct HL as (H1 & H2 & H3). repeat split; auto.
  - (* PRaise *)
    destruct (fb th) as [fbs|].
    + pose proof (resume_shape fbs f) as HR.
      destruct (resume fbs f) as [[[p'' s''] f''] fbs']. simpl. destruct HR as (R1 & R2 & R3). repeat split; auto.
    + pose proof (load_true_tnf (script th) f) as HL.
      destruct (load true (script th) f) as [[p' s'] f']. simpl. destruct HL as (H1 & H2 & H3). repeat split; auto.
  - (* PAcq *)
    destruct (fb th); simpl; repeat split; auto; discriminate.
  - exfalso; eapply Hl; eauto.
Qed.

(* the two shapes under one thread step *)
Definition t_in (th : thread) : Prop := win (pc th) = true /\ nfb (pc th) = true.
Definition t_out (th : thread) : Prop := wout (pc th) = true /\ tnf th.

Lemma tstep_out th e th' : t_out th -> tstep th = Some (e, th') -> e = EAcq /\ t_in th'.
Proof.
  intros [Hw _]. unfold tstep. destruct (pc th) eqn:E; simpl in Hw; try discriminate.
  intros H; injection H as <- <-. split; [reflexivity|].
  apply norm_in. simpl. exact Hw.
Qed.

Lemma tstep_in th e th' : t_in th -> tstep th = Some (e, th') ->
  (e = ERel /\ t_out th') \/ ((exists c b, e = ECall c b) /\ t_in th').
Proof.
  intros [Hw Hn]. unfold tstep. destruct (pc th) eqn:E; simpl in Hw, Hn; try discriminate.
  - intros H; injection H as <- <-. left. split; [reflexivity|]. apply norm_out. simpl. exact Hw.
  - intros H; injection H as <- <-. right. split; [eauto|]. apply norm_in. simpl.
    apply andb_true_iff in Hw as [H1 H2]. destruct (faulty th); assumption.
Qed.

Lemma t_in_can_step th : t_in th -> exists e th', tstep th = Some (e, th') /\ e <> EAcq.
Proof.
  intros [Hw Hn]. unfold tstep. destruct (pc th); simpl in Hw, Hn; try discriminate.
  - eexists; eexists; split; [reflexivity | discriminate].
  - eexists; eexists; split; [reflexivity | discriminate].
Qed.

Lemma t_out_unfinished_acq th : t_out th -> finished th = false -> exists th', tstep th = Some (EAcq, th').
Proof.
  intros [Hw [Hn _]] Hf. unfold tstep, finished in *. destruct (pc th); simpl in *; try discriminate; eauto.
Qed.

Lemma init_thread_out s fl b : t_out (init_thread s fl b).
Proof. apply norm_out. reflexivity. Qed.

(* ====================================================================================== *)
(* 3. the invariant of every reachable configuration                                         *)
(* ====================================================================================== *)
Definition holds (c : config) (t : tid) : bool :=
  match sem c with Some u => u =? t | None => false end.

(* mutual exclusion: the holder of the semaphore is inside a critical section, everybody else is
   outside; the holder exists *)
Definition Inv (c : config) : Prop :=
  (forall t th, nth_error (ths c) t = Some th -> if holds c t then t_in th else t_out th)
  /\ (forall u, sem c = Some u -> u < length (ths c)).

Lemma step_unfold c t c' : step c t = Some c' ->
  exists th e th' s', nth_error (ths c) t = Some th /\ tstep th = Some (e, th') /\ enabled (sem c) t e = Some s'
                      /\ c' = {| sem := s'; glog := glog c ++ [(t, e)]; ths := upd (ths c) t th' |}.
Proof.
  unfold step. destruct (nth_error (ths c) t) as [th|] eqn:Et; [|discriminate].
  destruct (tstep th) as [[e th']|] eqn:Es; [|discriminate].
  destruct (enabled (sem c) t e) as [s'|] eqn:Ee; [|discriminate].
  intros H; injection H as <-. eauto 10.
Qed.

Lemma enabled_cases s t e s' : enabled s t e = Some s' ->
  (e = EAcq /\ s = None /\ s' = Some t) \/ (e = ERel /\ s = Some t /\ s' = None)
  \/ ((exists c b, e = ECall c b) /\ s = Some t /\ s' = Some t).
Proof.
  destruct e, s as [u|]; simpl; try discriminate.
  - intro H; injection H as <-. left; auto.
  - destruct (u =? t) eqn:E; [|discriminate]. apply Nat.eqb_eq in E; subst u. intro H; injection H as <-. right; left; auto.
  - destruct (u =? t) eqn:E; [|discriminate]. apply Nat.eqb_eq in E; subst u. intro H; injection H as <-. right; right; eauto.
Qed.

Lemma step_inv c t c' : Inv c -> step c t = Some c' -> Inv c'.
Proof.
  intros [HI HB] Hs. apply step_unfold in Hs as (th & e & th' & s' & Et & Es & Ee & ->).
  pose proof (HI t th Et) as Ht. unfold holds in *.
  assert (Hlt : t < length (ths c)) by (apply nth_error_Some; congruence).
  apply enabled_cases in Ee as [(-> & Esem & ->)|[(-> & Esem & ->)|([c0 [b0 ->]] & Esem & ->)]];
    rewrite Esem in *; try rewrite Nat.eqb_refl in Ht.
  - (* acquire *)
    destruct (tstep_out _ _ _ Ht Es) as [_ Hi].
    split; simpl.
    + intros u thu Hu. unfold holds; simpl. destruct (Nat.eq_dec t u) as [<-|Hne].
      * rewrite (nth_upd_same _ _ _ _ Et) in Hu. injection Hu as <-. rewrite Nat.eqb_refl. exact Hi.
      * rewrite nth_upd_other in Hu by assumption.
        destruct (t =? u) eqn:Etu; [apply Nat.eqb_eq in Etu; contradiction|]. exact (HI u thu Hu).
    + intros u Hu. injection Hu as <-. rewrite length_upd. exact Hlt.
  - (* release *)
    destruct (tstep_in _ _ _ Ht Es) as [[_ Ho]|[[c0 [b0 Hc]] _]]; [|discriminate].
    split; simpl.
    + intros u thu Hu. unfold holds; simpl. destruct (Nat.eq_dec t u) as [<-|Hne].
      * rewrite (nth_upd_same _ _ _ _ Et) in Hu. injection Hu as <-. exact Ho.
      * rewrite nth_upd_other in Hu by assumption. specialize (HI u thu Hu).
        destruct (t =? u) eqn:Etu; [apply Nat.eqb_eq in Etu; contradiction|]. exact HI.
    + discriminate.
  - (* target call *)
    destruct (tstep_in _ _ _ Ht Es) as [[Hc _]|[_ Hi]]; [discriminate|].
    split; simpl.
    + intros u thu Hu. unfold holds; simpl. destruct (Nat.eq_dec t u) as [<-|Hne].
      * rewrite (nth_upd_same _ _ _ _ Et) in Hu. injection Hu as <-. rewrite Nat.eqb_refl. exact Hi.
      * rewrite nth_upd_other in Hu by assumption. exact (HI u thu Hu).
    + intros u Hu. rewrite length_upd. apply HB. exact Hu.
Qed.

Lemma init_inv l : Inv (init l).
Proof.
  split; simpl.
  - intros t th H. unfold holds; simpl.
    apply nth_error_In in H. apply in_map_iff in H as [[s fl] [<- _]]. apply init_thread_out.
  - discriminate.
Qed.

(* no deadlock *)
Lemma inv_no_deadlock c : Inv c ->
  (exists t th, nth_error (ths c) t = Some th /\ finished th = false) ->
  exists t, step c t <> None.
Proof.
  intros [HI HB] [t [th [Ht Hf]]].
  destruct (sem c) as [u|] eqn:Es.
  - (* the holder can move *)
    assert (Hu : u < length (ths c)) by (apply HB; reflexivity).
    destruct (nth_error (ths c) u) as [thu|] eqn:Eu; [|apply nth_error_None in Eu; lia].
    pose proof (HI u thu Eu) as Hin. unfold holds in Hin. rewrite Es, Nat.eqb_refl in Hin.
    destruct (t_in_can_step _ Hin) as (e & th' & Hst & Hne).
    exists u. unfold step. rewrite Eu, Hst, Es. destruct e; simpl; try rewrite Nat.eqb_refl; congruence.
  - (* the semaphore is free: any unfinished thread can acquire it *)
    pose proof (HI t th Ht) as Hout. unfold holds in Hout. rewrite Es in Hout.
    destruct (t_out_unfinished_acq _ Hout Hf) as [th' Hst].
    exists t. unfold step. rewrite Ht, Hst, Es. simpl. discriminate.
Qed.

(* ---------- the log: one holder at a time ---------- *)
Fixpoint mon (n : nat) (h : option tid) (log : list (tid * gev)) : option (option tid) :=
  match log with
  | [] => Some h
  | (t, e) :: r => match enabled h t e with
                   | Some h' => if t <? n then mon n h' r else None
                   | None => None
                   end
  end.

Lemma mon_app n l1 : forall h l2,
  mon n h (l1 ++ l2) = match mon n h l1 with Some h' => mon n h' l2 | None => None end.
Proof.
  induction l1 as [|[t e] r IH]; intros h l2; simpl; [reflexivity|].
  destruct (enabled h t e); [|reflexivity]. destruct (t <? n); [apply IH | reflexivity].
Qed.

Lemma mon_sectb n log : forall h, mon n h log = Some None -> sectb n h log = true.
Proof.
  induction log as [|[t e] r IH]; intros h; simpl.
  - intros H; injection H as ->; reflexivity.
  - destruct h as [u|]; destruct e; simpl; try discriminate.
    + destruct (u =? t) eqn:E; [|discriminate]. destruct (t <? n); [|discriminate]. intro H; simpl; apply IH; exact H.
    + destruct (u =? t) eqn:E; [|discriminate]. destruct (t <? n); [|discriminate]. intro H; simpl; apply IH; exact H.
    + destruct (t <? n); [|discriminate]. intro H; simpl; apply IH; exact H.
Qed.

Definition MonInv (c : config) : Prop := mon (length (ths c)) None (glog c) = Some (sem c).

Lemma step_mon c t c' : MonInv c -> step c t = Some c' -> MonInv c'.
Proof.
  unfold MonInv. intros HM Hs. apply step_unfold in Hs as (th & e & th' & s' & Et & Es & Ee & ->). simpl.
  rewrite length_upd, mon_app, HM. simpl. rewrite Ee.
  assert (Hlt : t < length (ths c)) by (apply nth_error_Some; congruence).
  apply Nat.ltb_lt in Hlt. rewrite Hlt. reflexivity.
Qed.

(* ---------- each thread's part of the log is a run of that thread alone ---------- *)
Inductive tpath : thread -> list gev -> thread -> Prop :=
| tp_nil th : tpath th [] th
| tp_snoc a l b e c : tpath a l b -> tstep b = Some (e, c) -> tpath a (l ++ [e]) c.

Lemma proj_snoc t log u e : proj t (log ++ [(u, e)]) = proj t log ++ (if u =? t then [e] else []).
Proof.
  unfold proj. rewrite filter_app, map_app. simpl. destruct (u =? t); reflexivity.
Qed.

Definition PInv (l0 : list thread) (c : config) : Prop :=
  length (ths c) = length l0
  /\ forall t th0, nth_error l0 t = Some th0 ->
       exists th, nth_error (ths c) t = Some th /\ tpath th0 (proj t (glog c)) th.

Lemma step_pinv l0 c t c' : PInv l0 c -> step c t = Some c' -> PInv l0 c'.
Proof.
  intros [HL HP] Hs. apply step_unfold in Hs as (th & e & th' & s' & Et & Es & Ee & ->). split; simpl.
  - rewrite length_upd. exact HL.
  - intros u th0 Hu. destruct (HP u th0 Hu) as (thu & Hn & Hp). rewrite proj_snoc.
    destruct (Nat.eq_dec t u) as [<-|Hne].
    + rewrite Nat.eqb_refl. exists th'. split; [eapply nth_upd_same; eauto|].
      rewrite Et in Hn; injection Hn as <-. econstructor; eauto.
    + exists thu. rewrite nth_upd_other by assumption. split; [exact Hn|].
      destruct (t =? u) eqn:E; [apply Nat.eqb_eq in E; contradiction|]. rewrite app_nil_r. exact Hp.
Qed.

Lemma init_pinv l : PInv (ths (init l)) (init l).
Proof. split; [reflexivity|]. intros t th0 H. exists th0. split; [exact H|constructor]. Qed.

(* ---------- all of it, along every schedule ---------- *)
Definition GInv (l : list (list rcall * list nat)) (c : config) : Prop :=
  Inv c /\ MonInv c /\ PInv (ths (init l)) c.

Lemma ginv_init l : GInv l (init l).
Proof. split; [apply init_inv|]. split; [reflexivity | apply init_pinv]. Qed.

Lemma ginv_step l c t c' : GInv l c -> step c t = Some c' -> GInv l c'.
Proof.
  intros (H1 & H2 & H3) Hs. split; [eapply step_inv; eauto|]. split; [eapply step_mon; eauto | eapply step_pinv; eauto].
Qed.

Lemma ginv_step' l c t : GInv l c -> GInv l (step' c t).
Proof. intro H. unfold step'. destruct (step c t) eqn:E; [eapply ginv_step; eauto | exact H]. Qed.

Theorem ginv_sched l sched : GInv l (fold_left step' sched (init l)).
Proof.
  assert (G : forall c, GInv l c -> GInv l (fold_left step' sched c)).
  { induction sched as [|t s IH]; intros c H; simpl; [exact H|]. apply IH. apply ginv_step'. exact H. }
  apply G. apply ginv_init.
Qed.

(* ====================================================================================== *)
(* 4. what a thread does when it runs alone (its own code catches what a call raises)        *)
(* ====================================================================================== *)
Fixpoint ptrace (fl : list nat) (p : prog) (f : fwd) (k : nat) : list gev * fwd * nat :=
  match p with
  | PEnd | PRaise => ([], f, k)
  | PAcq r => let '(l, f', k') := ptrace fl r f k in (EAcq :: l, f', k')
  | PRel r => let '(l, f', k') := ptrace fl r f k in (ERel :: l, f', k')
  | PCall c h r =>
      if memb k fl
      then let '(l, f', k') := ptrace fl h f (S k) in (ECall c true :: l, f', k')
      else let '(l, f', k') := ptrace fl r f (S k) in (ECall c false :: l, f', k')
  | PLoc o r => ptrace fl r (apply_lop o f) k
  end.

Fixpoint strace (fl : list nat) (s : list rcall) (f : fwd) (k : nat) : list gev :=
  match s with
  | [] => []
  | c :: r => let '(l, f', k') := ptrace fl (expand f c) f k in l ++ strace fl r f' k'
  end.

Definition ttrace (th : thread) : list gev :=
  let '(l, f, k) := ptrace (flt th) (pc th) (fw th) (ncall th) in l ++ strace (flt th) (script th) f k.

Lemma ptrace_settle fl p : forall f k, ptrace fl p f k = ptrace fl (fst (settle p f)) (snd (settle p f)) k.
Proof. induction p; intros f k; simpl; try reflexivity. apply IHp. Qed.

Lemma load_ttrace fl s : forall f k,
  let '(p', s', f') := load true s f in
  strace fl s f k = (let '(l, f'', k') := ptrace fl p' f' k in l ++ strace fl s' f'' k').
Proof.
  induction s as [|c r IH]; intros f k; simpl; [reflexivity|].
  rewrite ptrace_settle. destruct (settle (expand f c) f) as [p f1]; simpl.
  destruct p; try reflexivity; simpl; apply IH.
Qed.

Lemma norm_ttrace th : fb th = None -> ttrace (norm th) = ttrace th /\ fb (norm th) = None.
Proof.
  intro Hb. unfold norm, ttrace at 2. rewrite ptrace_settle, Hb.
  destruct (settle (pc th) (fw th)) as [p f]; simpl.
  destruct p; try (split; reflexivity).
  - pose proof (load_ttrace (flt th) (script th) f (ncall th)) as H.
    destruct (load true (script th) f) as [[p' s'] f']. unfold ttrace; simpl. rewrite H. split; reflexivity.
  - pose proof (load_ttrace (flt th) (script th) f (ncall th)) as H.
    destruct (load true (script th) f) as [[p' s'] f']. unfold ttrace; simpl. rewrite H. split; reflexivity.
Qed.

Lemma tstep_ttrace th e th' : fb th = None -> tstep th = Some (e, th') -> ttrace th = e :: ttrace th' /\ fb th' = None.
Proof.
  intros Hb. unfold tstep. destruct (pc th) eqn:E; try discriminate; intro H; injection H as <- <-.
  - destruct (norm_ttrace (set_pc th p (ncall th)) Hb) as [-> ->]. split; [|reflexivity].
    unfold ttrace; simpl. rewrite E; simpl. destruct (ptrace (flt th) p (fw th) (ncall th)) as [[l f'] k']. reflexivity.
  - destruct (norm_ttrace (set_pc th p (ncall th)) Hb) as [-> ->]. split; [|reflexivity].
    unfold ttrace; simpl. rewrite E; simpl. destruct (ptrace (flt th) p (fw th) (ncall th)) as [[l f'] k']. reflexivity.
  - destruct (norm_ttrace (set_pc th (if faulty th then p1 else p2) (S (ncall th))) Hb) as [-> ->]. split; [|reflexivity].
    unfold ttrace; simpl. rewrite E; simpl. unfold faulty.
    destruct (memb (ncall th) (flt th)).
    + destruct (ptrace (flt th) p1 (fw th) (S (ncall th))) as [[l f'] k']. reflexivity.
    + destruct (ptrace (flt th) p2 (fw th) (S (ncall th))) as [[l f'] k']. reflexivity.
Qed.

Lemma tpath_ttrace a l b : tpath a l b -> fb a = None -> ttrace a = l ++ ttrace b /\ fb b = None.
Proof.
  induction 1 as [th|a l b e c Hp IH Hs]; intro Hb.
  - split; [reflexivity | exact Hb].
  - destruct (IH Hb) as [E Hbb]. destruct (tstep_ttrace _ _ _ Hbb Hs) as [E2 Hbc].
    split; [|exact Hbc]. rewrite E, E2, <- app_assoc. reflexivity.
Qed.

Lemma finished_ttrace th : tnf th -> finished th = true -> ttrace th = [].
Proof.
  intros [_ Hs] Hf. unfold finished in Hf. unfold ttrace. destruct (pc th) eqn:E; try discriminate.
  simpl. rewrite (Hs eq_refl). reflexivity.
Qed.

Lemma init_ttrace s fl : ttrace (init_thread s fl None) = strace fl s fwd0 0.
Proof. unfold init_thread. destruct (norm_ttrace {| pc := PEnd; script := s; fw := fwd0; ncall := 0; flt := fl; fb := None |} eq_refl) as [-> _]. reflexivity. Qed.

(* ---------- the sequential meaning, call by call ---------- *)
Definition same3 (f f' : fwd) : Prop := f_now f' = f_now f /\ f_global f' = f_global f /\ f_in f' = f_in f.

Lemma ptrace_calls_cut fl rest tail f :
  (forall k0, exists f', ptrace fl rest f k0 = (fst (tail k0) ++ [ERel], f', snd (tail k0)) /\ same3 f f') ->
  forall cs k, exists f',
    ptrace fl (calls_then cs (PRel PRaise) rest) f k = (fst (cut fl k cs tail) ++ [ERel], f', snd (cut fl k cs tail))
    /\ same3 f f'.
Proof.
  intros Hrest. induction cs as [|c cs IH]; intro k; simpl.
  - apply Hrest.
  - destruct (memb k fl).
    + exists f. simpl. split; [reflexivity | repeat split].
    + destruct (IH (S k)) as (f' & E & Hs). exists f'. rewrite E.
      destruct (cut fl (S k) cs tail) as [l k']. simpl. split; [reflexivity | exact Hs].
Qed.

Definition after_replay (kd : kind) (n : nat) : prog :=
  PLoc LClearTestTags
    (PCall (TOutcome kd n) (PCall (TStopTest n) (PRel PRaise) (PRel PRaise))
       (PCall (TStopTest n) (PRel PRaise) (PRel (PLoc LClearStart PEnd)))).

Lemma expand_outcome f kd n :
  expand f (ROutcome kd n) = PAcq (calls_then (replay f n) (PRel PRaise) (after_replay kd n)).
Proof. reflexivity. Qed.

Lemma ptrace_acq fl r f k : ptrace fl (PAcq r) f k = (let '(l, f', k') := ptrace fl r f k in (EAcq :: l, f', k')).
Proof. reflexivity. Qed.

Lemma ptrace_outcome fl f kd n k : exists f',
  ptrace fl (expand f (ROutcome kd n)) f k
  = (section (fst (cut fl k (replay f n) (tail2 fl (TOutcome kd n) (TStopTest n)))), f',
     snd (cut fl k (replay f n) (tail2 fl (TOutcome kd n) (TStopTest n))))
  /\ same3 f f'.
Proof.
  rewrite expand_outcome.
  assert (Hrest : forall k0, exists f',
    ptrace fl (after_replay kd n) f k0
    = (fst (tail2 fl (TOutcome kd n) (TStopTest n) k0) ++ [ERel], f', snd (tail2 fl (TOutcome kd n) (TStopTest n) k0))
    /\ same3 f f').
  { intro k0. unfold after_replay. simpl. destruct (memb k0 fl); destruct (memb (S k0) fl); simpl;
      eexists; (split; [reflexivity | repeat split]). }
  destruct (ptrace_calls_cut fl _ _ f Hrest (replay f n) k) as (f' & E & Hs).
  exists f'. split; [|exact Hs].
  rewrite ptrace_acq, E. reflexivity.
Qed.

Lemma ptrace_guarded fl c f k : ptrace fl (guarded c) f k = (section [ECall c (memb k fl)], f, S k).
Proof. unfold guarded; simpl. destruct (memb k fl); reflexivity. Qed.

(* ---------- for well-formed reporting the thread's log is the expected one ---------- *)
Definition Rel (p : phase) (f : fwd) (st : sst) : Prop :=
  f_now f = s_now st /\ f_global f = s_run st /\
  match p with
  | Out => f_in f = false /\ f_test f = no_tags /\ s_open st = None
  | Pre _ => f_in f = true /\ s_open st = Some (f_start f, f_test f)
  | Post _ => f_in f = true /\ exists x, s_open st = Some x
  end.

Lemma expected_outcome fl kd n r st k t0 tg : s_open st = Some (t0, tg) ->
  expected fl (ROutcome kd n :: r) st k =
  (let '(body, k') := cut fl k ([TTime t0; TStartTest n; TTime (s_time st)] ++ tag_call (s_run st) ++ tag_call tg)
                          (tail2 fl (TOutcome kd n) (TStopTest n)) in
   section body ++ expected fl r st k').
Proof. intro H. simpl. rewrite H. reflexivity. Qed.

Lemma strace_expected fl s : forall p f st k,
  wf_script p s = true -> Rel p f st -> strace fl s f k = expected fl s st k.
Proof.
  induction s as [|c r IH]; intros p f st k Hwf HR; [reflexivity|].
  destruct HR as (Hn & Hg & Hp).
  destruct c as [a|tn tg|n|n|kd n|g|].
  - (* time *)
    simpl. apply (IH p); [exact Hwf|]. repeat split; simpl; auto.
  - (* tags *)
    simpl in Hwf. simpl strace. simpl ptrace.
    destruct p as [|m|m]; simpl in Hp.
    + destruct Hp as (Hi & Ht & Ho). simpl expected. rewrite Ho.
      apply (IH Out); [exact Hwf|]. unfold apply_lop; rewrite Hi. repeat split; simpl; auto. rewrite Hg; reflexivity.
    + destruct Hp as (Hi & Ho). simpl expected. rewrite Ho.
      apply (IH (Pre m)); [exact Hwf|]. unfold apply_lop; rewrite Hi. repeat split; simpl; auto.
    + destruct Hp as (Hi & [[t0 x] Ho]). simpl expected. rewrite Ho.
      apply (IH (Post m)); [exact Hwf|]. unfold apply_lop; rewrite Hi. repeat split; simpl; eauto.
  - (* startTest *)
    simpl in Hwf. destruct p; try discriminate. destruct Hp as (Hi & Ht & Ho).
    simpl. apply (IH (Pre n)); [exact Hwf|]. repeat split; simpl; auto.
    rewrite Ht. unfold now_tv, s_time. rewrite Hn. reflexivity.
  - (* stopTest *)
    simpl in Hwf. destruct p as [|m|m]; try discriminate;
      apply andb_true_iff in Hwf as [_ Hwf]; simpl; apply (IH Out); try exact Hwf; repeat split; simpl; auto.
  - (* outcome *)
    simpl in Hwf. destruct p as [|m|m]; try discriminate. apply andb_true_iff in Hwf as [_ Hwf].
    destruct Hp as (Hi & Ho).
    destruct (ptrace_outcome fl f kd n k) as (f' & E & (S1 & S2 & S3)).
    change (strace fl (ROutcome kd n :: r) f k)
      with (let '(l, f', k') := ptrace fl (expand f (ROutcome kd n)) f k in l ++ strace fl r f' k').
    rewrite E. rewrite (expected_outcome fl kd n r st k _ _ Ho).
    assert (Hrep : replay f n = [TTime (f_start f); TStartTest n; TTime (s_time st)] ++ tag_call (s_run st) ++ tag_call (f_test f)).
    { unfold replay, tag_call, now_tv, s_time. rewrite Hn, Hg. reflexivity. }
    rewrite <- Hrep.
    destruct (cut fl k (replay f n) (tail2 fl (TOutcome kd n) (TStopTest n))) as [body k'] eqn:Ec. simpl fst; simpl snd.
    f_equal. apply (IH (Post n)); [exact Hwf|].
    repeat split; try congruence. eauto.
  - (* guarded calls *)
    simpl in Hwf.
    destruct g.
    + destruct p; try discriminate. destruct Hp as (Hi & Ht & Ho).
      assert (HR' : Rel Out (apply_lop LStartRun f) {| s_now := None; s_run := no_tags; s_open := s_open st |})
        by (repeat split; simpl; auto).
      simpl strace. simpl ptrace. simpl expected.
      destruct (memb k fl); simpl; do 3 f_equal; apply (IH Out _ _ _ Hwf HR').
    + destruct p; try discriminate.
      assert (HR' : Rel Out f st) by (split; [exact Hn | split; [exact Hg | exact Hp]]).
      simpl. destruct (memb k fl); simpl; do 3 f_equal; apply (IH Out _ _ _ Hwf HR').
    + assert (HR' : Rel p f st) by (repeat split; auto).
      simpl. destruct (memb k fl); simpl; do 3 f_equal; apply (IH p _ _ _ Hwf HR').
    + assert (HR' : Rel p f st) by (repeat split; auto).
      simpl. destruct (memb k fl); simpl; do 3 f_equal; apply (IH p _ _ _ Hwf HR').
    + assert (HR' : Rel p f st) by (repeat split; auto).
      simpl. destruct (memb k fl); simpl; do 3 f_equal; apply (IH p _ _ _ Hwf HR').
  - discriminate.
Qed.

Lemma rel0 : Rel Out fwd0 sst0.
Proof. repeat split. Qed.

(* ====================================================================================== *)
(* 5. termination: the harness scheduler always runs every thread to its end                *)
(* ====================================================================================== *)
Lemma settle_psize p : forall f, psize (fst (settle p f)) = psize p.
Proof. induction p; intro f; simpl; auto. Qed.

Lemma psize_calls_then cs h r : psize (calls_then cs h r) <= length cs + Nat.max (psize h) (psize r).
Proof. induction cs as [|c cs IH]; simpl; lia. Qed.

Lemma expand_bound f c : psize (expand f c) <= call_bound.
Proof.
  unfold call_bound. destruct c as [a|n g|n|n|k n|g|].
  - simpl; lia.
  - simpl; lia.
  - simpl; lia.
  - simpl; lia.
  - rewrite expand_outcome.
    pose proof (psize_calls_then (replay f n) (PRel PRaise) (after_replay k n)) as H.
    assert (L : length (replay f n) <= 5) by (unfold replay; destruct (any_tags (f_global f)), (any_tags (f_test f)); simpl; lia).
    change (psize (PRel PRaise)) with 1 in H. change (psize (after_replay k n)) with 3 in H.
    change (psize (PAcq ?r)) with (S (psize r)). simpl Nat.max in H. lia.
  - destruct g; simpl; lia.
  - simpl; lia.
Qed.

Lemma load_cons cont c r f :
  load cont (c :: r) f = match settle (expand f c) f with
                         | (PEnd, f') => load cont r f'
                         | (PRaise, f') => if cont then load cont r f' else (PRaise, r, f')
                         | (p, f') => (p, r, f')
                         end.
Proof. reflexivity. Qed.

Lemma load_measure cont s : forall f,
  let '(p, s', f') := load cont s f in psize p + call_bound * length s' <= call_bound * length s.
Proof.
  induction s as [|c r IH]; intro f.
  - simpl. lia.
  - rewrite load_cons.
    pose proof (settle_psize (expand f c) f) as Hs. pose proof (expand_bound f c) as Hb.
    destruct (settle (expand f c) f) as [p f']. simpl fst in Hs.
    change (length (c :: r)) with (S (length r)). unfold call_bound in *.
    destruct p.
    + specialize (IH f'). destruct (load cont r f') as [[p' s'] f'']. lia.
    + destruct cont.
      * specialize (IH f'). destruct (load true r f') as [[p' s'] f'']. lia.
      * lia.
    + lia.
    + lia.
    + lia.
    + lia.
Qed.

Lemma resume_cons s r f :
  resume (s :: r) f = match load false s f with
                      | (PRaise, _, f') => resume r f'
                      | (p, s', f') => (p, s', f', r)
                      end.
Proof. reflexivity. Qed.

Lemma resume_measure fbs : forall f,
  let '(p, s', f', fbs') := resume fbs f in
  psize p + call_bound * length s' + call_bound * length (concat fbs') <= call_bound * length (concat fbs).
Proof.
  induction fbs as [|s r IH]; intro f.
  - simpl. lia.
  - rewrite resume_cons. pose proof (load_measure false s f) as HL.
    change (concat (s :: r)) with (s ++ concat r). rewrite app_length.
    destruct (load false s f) as [[p s'] f']. unfold call_bound in *.
    destruct p.
    + lia.
    + specialize (IH f'). destruct (resume r f') as [[[p'' s''] f''] fbs']. lia.
    + lia.
    + lia.
    + lia.
    + lia.
Qed.

Lemma norm_measure th : tmeasure (norm th) <= tmeasure th.
Proof.
  unfold norm, tmeasure. pose proof (settle_psize (pc th) (fw th)) as Hs.
  destruct (settle (pc th) (fw th)) as [p f]; simpl in Hs. rewrite <- Hs.
  destruct p; destruct (fb th) as [fbs|]; simpl; try lia.
  - pose proof (load_measure false (script th) f) as HL.
    destruct (load false (script th) f) as [[p' s'] f'].
    destruct p'; try (unfold call_bound in *; simpl in *; lia).
    pose proof (resume_measure fbs f') as HR. destruct (resume fbs f') as [[[p'' s''] f''] fbs'].
    unfold call_bound in *; simpl in *; lia.
  - pose proof (load_measure true (script th) f) as HL.
    destruct (load true (script th) f) as [[p' s'] f']. unfold call_bound in *; simpl in *; lia.
  - pose proof (resume_measure fbs f) as HR. destruct (resume fbs f) as [[[p'' s''] f''] fbs'].
    unfold call_bound in *; simpl in *; lia.
  - pose proof (load_measure true (script th) f) as HL.
    destruct (load true (script th) f) as [[p' s'] f']. unfold call_bound in *; simpl in *; lia.
Qed.

Lemma tstep_measure th e th' : tstep th = Some (e, th') -> tmeasure th' < tmeasure th.
Proof.
  unfold tstep. destruct (pc th) eqn:E; try discriminate; intro H; injection H as <- <-.
  - pose proof (norm_measure (set_pc th p (ncall th))) as H. unfold tmeasure in *. simpl in *. rewrite E. simpl. lia.
  - pose proof (norm_measure (set_pc th p (ncall th))) as H. unfold tmeasure in *. simpl in *. rewrite E. simpl. lia.
  - pose proof (norm_measure (set_pc th (if faulty th then p1 else p2) (S (ncall th)))) as H.
    unfold tmeasure in *. simpl in *. rewrite E. simpl. destruct (faulty th); lia.
Qed.

Definition msum (l : list thread) : nat := fold_right (fun th a => tmeasure th + a) 0 l.

Lemma msum_upd l : forall t th th', nth_error l t = Some th -> tmeasure th' < tmeasure th -> msum (upd l t th') < msum l.
Proof.
  induction l as [|a l IH]; intros [|t] th th' H Hlt; simpl in *; try discriminate.
  - injection H as ->. lia.
  - specialize (IH t th th' H Hlt). lia.
Qed.

Lemma step_measure c t c' : step c t = Some c' -> cmeasure c' < cmeasure c.
Proof.
  intro Hs. apply step_unfold in Hs as (th & e & th' & s' & Et & Es & Ee & ->). unfold cmeasure; simpl.
  apply (msum_upd _ _ _ _ Et). eapply tstep_measure; eauto.
Qed.

Lemma pick_from_some c cands : forall c', pick_from c cands = Some c' -> exists t, step c t = Some c'.
Proof.
  induction cands as [|t r IH]; intros c' H; simpl in H; [discriminate|].
  destruct (step c t) eqn:E; [injection H as <-; eauto | apply IH; exact H].
Qed.

Lemma pick_from_none c cands : pick_from c cands = None -> forall t, In t cands -> step c t = None.
Proof.
  induction cands as [|u r IH]; intros H t Hin; simpl in *; [contradiction|].
  destruct (step c u) eqn:E; [discriminate|]. destruct Hin as [<-|Hin]; [exact E | apply IH; assumption].
Qed.

Lemma unfinished_exists l : forallb finished l = false -> exists t th, nth_error l t = Some th /\ finished th = false.
Proof.
  induction l as [|a l IH]; simpl; [discriminate|].
  destruct (finished a) eqn:E; simpl.
  - intro H. destruct (IH H) as (t & th & Ht & Hf). exists (S t), th. auto.
  - intros _. exists 0, a. auto.
Qed.

Lemma stuck_finished c : Inv c -> (forall t, t < length (ths c) -> step c t = None) -> all_finished c = true.
Proof.
  intros HI Hst. unfold all_finished. destruct (forallb finished (ths c)) eqn:E; [reflexivity|].
  destruct (inv_no_deadlock c HI (unfinished_exists _ E)) as [t Ht].
  exfalso. apply Ht. destruct (Nat.lt_ge_cases t (length (ths c))) as [Hlt|Hge]; [apply Hst; exact Hlt|].
  unfold step. apply nth_error_None in Hge. rewrite Hge. reflexivity.
Qed.

Lemma ginv_sched_step l c t : GInv l c -> GInv l (sched_step c t).
Proof.
  intro H. unfold sched_step. destruct (pick_from c (rot (length (ths c)) t)) as [c'|] eqn:E; [|exact H].
  destruct (pick_from_some _ _ _ E) as [u Hu]. eapply ginv_step; eauto.
Qed.

Lemma drain_finishes l fuel : forall c, GInv l c -> cmeasure c <= fuel ->
  GInv l (drain fuel c) /\ all_finished (drain fuel c) = true.
Proof.
  induction fuel as [|k IH]; intros c HG Hm; simpl.
  - split; [exact HG|]. apply stuck_finished; [apply HG|].
    intros t _. destruct (step c t) eqn:E; [|reflexivity]. apply step_measure in E. lia.
  - destruct (pick_from c (seq 0 (length (ths c)))) as [c'|] eqn:E.
    + destruct (pick_from_some _ _ _ E) as [u Hu]. apply IH; [eapply ginv_step; eauto|].
      apply step_measure in Hu. lia.
    + split; [exact HG|]. apply stuck_finished; [apply HG|].
      intros t Ht. apply (pick_from_none _ _ E). apply in_seq. lia.
Qed.

Lemma run_ginv l sched : GInv l (run l sched) /\ all_finished (run l sched) = true.
Proof.
  unfold run. apply drain_finishes; [|lia].
  assert (G : forall c, GInv l c -> GInv l (fold_left sched_step sched c)).
  { induction sched as [|t s IH]; intros c H; simpl; [exact H|]. apply IH. apply ginv_sched_step. exact H. }
  apply G. apply ginv_init.
Qed.

(* ====================================================================================== *)
(* 6. the model meets the statement                                                          *)
(* ====================================================================================== *)
Lemma finished_sem_free c : Inv c -> all_finished c = true -> sem c = None.
Proof.
  intros [HI HB] Hf. destruct (sem c) as [u|] eqn:Es; [|reflexivity]. exfalso.
  assert (Hu : u < length (ths c)) by (apply HB; reflexivity).
  destruct (nth_error (ths c) u) as [th|] eqn:Eu; [|apply nth_error_None in Eu; lia].
  pose proof (HI u th Eu) as Hin. unfold holds in Hin. rewrite Es, Nat.eqb_refl in Hin.
  unfold all_finished in Hf. rewrite forallb_forall in Hf. specialize (Hf th (nth_error_In _ _ Eu)).
  destruct Hin as [Hw _]. unfold finished in Hf. destruct (pc th); simpl in *; discriminate.
Qed.

Lemma thread_log_complete l c t sc fl :
  GInv l c -> all_finished c = true -> nth_error l t = Some (sc, fl) ->
  proj t (glog c) = strace fl sc fwd0 0.
Proof.
  intros (HI & HM & [HL HP]) Hf Ht.
  assert (H0 : nth_error (ths (init l)) t = Some (init_thread sc fl None)).
  { simpl. rewrite (map_nth_error _ _ _ Ht). reflexivity. }
  destruct (HP t _ H0) as (th & Hn & Hp).
  assert (Hb0 : fb (init_thread sc fl None) = None).
  { unfold init_thread. apply norm_ttrace. reflexivity. }
  destruct (tpath_ttrace _ _ _ Hp Hb0) as [E _].
  rewrite init_ttrace in E.
  pose proof (finished_sem_free c HI Hf) as Hs.
  destruct HI as [HI _]. specialize (HI t th Hn). unfold holds in HI. rewrite Hs in HI. destruct HI as [_ Hnf].
  unfold all_finished in Hf. rewrite forallb_forall in Hf. specialize (Hf th (nth_error_In _ _ Hn)).
  rewrite (finished_ttrace th Hnf Hf), app_nil_r in E. symmetry; exact E.
Qed.

Theorem model_meets_spec : forall i, spec_okb i (model i) = true.
Proof.
  intros [l sched]. unfold spec_okb, model. simpl.
  destruct (run_ginv l sched) as [HG Hf]. set (c := run l sched) in *.
  pose proof HG as (HI & HM & [HL HP]).
  pose proof (finished_sem_free c HI Hf) as Hs.
  rewrite Hf, Hs. simpl.
  apply andb_true_iff; split.
  - apply mon_sectb. unfold MonInv in HM. rewrite HL in HM. simpl in HM. rewrite map_length in HM. rewrite HM, Hs. reflexivity.
  - apply forallb_idx_spec. intros t [sc fl] Ht. simpl. unfold thread_okb; simpl.
    destruct (wf_script Out sc) eqn:Ew; [|reflexivity].
    apply (list_eqb_spec _ gev_eqb_spec).
    rewrite (thread_log_complete l c t sc fl HG Hf Ht).
    apply (strace_expected fl sc Out fwd0 sst0 0 Ew rel0).
Qed.

(* ---------- the executable statement implies the readable one ---------- *)
Lemma sectb_sections n log :
  (sectb n None log = true -> Sectioned n log)
  /\ (forall t, sectb n (Some t) log = true ->
        exists body secs, log = map (pair t) body ++ (t, ERel) :: flat_map render secs
                          /\ Forall is_call body
                          /\ Forall (fun s => fst s < n /\ Forall is_call (snd s)) secs).
Proof.
  induction log as [|[u e] r [IH1 IH2]]; split.
  - intros _. exists []. split; [reflexivity | constructor].
  - intros t H; discriminate.
  - simpl. destruct e; try discriminate. intro H. apply andb_true_iff in H as [Hlt H].
    apply Nat.ltb_lt in Hlt. destruct (IH2 u H) as (body & secs & -> & Hb & Hs).
    exists ((u, body) :: secs). split.
    + simpl. unfold render at 1. simpl. unfold section. rewrite map_app. simpl. rewrite <- app_assoc. reflexivity.
    + constructor; [split; assumption | exact Hs].
  - intros t. simpl. destruct e.
    + discriminate.
    + intro H. apply andb_true_iff in H as [Ht H]. apply Nat.eqb_eq in Ht; subst u.
      destruct (IH1 H) as (secs & -> & Hs). exists [], secs. repeat split; [constructor | exact Hs].
    + intro H. apply andb_true_iff in H as [Ht H]. apply Nat.eqb_eq in Ht; subst u.
      destruct (IH2 t H) as (body & secs & -> & Hb & Hs).
      exists (ECall c raised :: body), secs. repeat split; [constructor; [exact I | exact Hb] | exact Hs].
Qed.

Theorem spec_okb_sound : forall i o, spec_okb i o = true -> Spec i o.
Proof.
  intros i o H. unfold spec_okb in H.
  apply andb_true_iff in H as [H H4]. apply andb_true_iff in H as [H H3]. apply andb_true_iff in H as [H1 H2].
  repeat split.
  - destruct (o_deadlock o); [discriminate | reflexivity].
  - exact H2.
  - apply sectb_sections. exact H3.
  - intros t sc fl Ht Hw. rewrite forallb_idx_spec in H4. specialize (H4 t (sc, fl) Ht).
    unfold thread_okb in H4; simpl in H4. rewrite Hw in H4. apply (list_eqb_spec _ gev_eqb_spec). exact H4.
Qed.

(* ====================================================================================== *)
(* 7. the named clauses, for every schedule                                                  *)
(* ====================================================================================== *)
Lemma t_in_block th : t_in th -> in_block th = true.
Proof. intros [Hw Hn]. unfold in_block. destruct (pc th); simpl in *; try discriminate; reflexivity. Qed.
Lemma t_out_block th : t_out th -> in_block th = false.
Proof. intros [Hw _]. unfold in_block. destruct (pc th); simpl in *; try discriminate; reflexivity. Qed.

Lemma inv_mutex c : Inv c ->
  (forall t th, nth_error (ths c) t = Some th -> (sem c = Some t <-> in_block th = true))
  /\ (forall t u tht thu, nth_error (ths c) t = Some tht -> nth_error (ths c) u = Some thu ->
        in_block tht = true -> in_block thu = true -> t = u).
Proof.
  intros [HI HB].
  assert (A : forall t th, nth_error (ths c) t = Some th -> (sem c = Some t <-> in_block th = true)).
  { intros t th Ht. specialize (HI t th Ht). unfold holds in HI. split.
    - intros Hs. rewrite Hs, Nat.eqb_refl in HI. apply t_in_block; exact HI.
    - intros Hb. destruct (sem c) as [u|].
      + revert HI. destruct (u =? t) eqn:E; intro HI; [apply Nat.eqb_eq in E; subst; reflexivity|].
        apply t_out_block in HI. congruence.
      + apply t_out_block in HI. congruence. }
  split; [exact A|].
  intros t u tht thu Ht Hu Bt Bu. apply (A t tht Ht) in Bt. apply (A u thu Hu) in Bu. congruence.
Qed.

Theorem mutex_all_schedules l sched :
  let c := fold_left step' sched (init l) in
  (forall t th, nth_error (ths c) t = Some th -> (sem c = Some t <-> in_block th = true))
  /\ (forall t u tht thu, nth_error (ths c) t = Some tht -> nth_error (ths c) u = Some thu ->
        in_block tht = true -> in_block thu = true -> t = u).
Proof. apply inv_mutex. apply (ginv_sched l sched). Qed.

Lemma inv_release c : Inv c -> (forall t th, nth_error (ths c) t = Some th -> in_block th = false) -> sem c = None.
Proof.
  intros [HI HB] H. destruct (sem c) as [u|] eqn:Es; [|reflexivity]. exfalso.
  assert (Hu : u < length (ths c)) by (apply HB; reflexivity).
  destruct (nth_error (ths c) u) as [th|] eqn:Eu; [|apply nth_error_None in Eu; lia].
  pose proof (HI u th Eu) as Hin. unfold holds in Hin. rewrite Es, Nat.eqb_refl in Hin.
  apply t_in_block in Hin. rewrite (H u th Eu) in Hin. discriminate.
Qed.

Theorem release_all_schedules l sched :
  let c := fold_left step' sched (init l) in
  (forall t th, nth_error (ths c) t = Some th -> in_block th = false) -> sem c = None.
Proof. simpl. apply inv_release. apply (ginv_sched l sched). Qed.

Theorem no_deadlock_all_schedules l sched :
  let c := fold_left step' sched (init l) in
  (exists t th, nth_error (ths c) t = Some th /\ finished th = false) -> exists t, step c t <> None.
Proof. simpl. apply inv_no_deadlock. apply (ginv_sched l sched). Qed.

(* the harness scheduler's run is one of the schedules, and it ends with every thread finished *)
Lemma sched_step_is_schedule c t : exists s, sched_step c t = fold_left step' s c.
Proof.
  unfold sched_step. destruct (pick_from c (rot (length (ths c)) t)) as [c'|] eqn:E.
  - destruct (pick_from_some _ _ _ E) as [u Hu]. exists [u]. simpl. unfold step'. rewrite Hu. reflexivity.
  - exists []. reflexivity.
Qed.

Lemma fold_sched_is_schedule sched : forall c, exists s, fold_left sched_step sched c = fold_left step' s c.
Proof.
  induction sched as [|t r IH]; intro c; simpl.
  - exists []. reflexivity.
  - destruct (sched_step_is_schedule c t) as [s1 E1]. destruct (IH (sched_step c t)) as [s2 E2].
    exists (s1 ++ s2). rewrite fold_left_app, <- E1. exact E2.
Qed.

Lemma drain_is_schedule fuel : forall c, exists s, drain fuel c = fold_left step' s c.
Proof.
  induction fuel as [|k IH]; intro c; simpl.
  - exists []. reflexivity.
  - destruct (pick_from c (seq 0 (length (ths c)))) as [c'|] eqn:E.
    + destruct (pick_from_some _ _ _ E) as [u Hu]. destruct (IH c') as [s Es].
      exists (u :: s). simpl. unfold step' at 2. rewrite Hu. exact Es.
    + exists []. reflexivity.
Qed.

Theorem run_terminates l sched :
  all_finished (run l sched) = true /\ sem (run l sched) = None
  /\ exists s, run l sched = fold_left step' s (init l).
Proof.
  destruct (run_ginv l sched) as [HG Hf]. split; [exact Hf|]. split; [apply finished_sem_free; [apply HG | exact Hf]|].
  unfold run. destruct (fold_sched_is_schedule sched (init l)) as [s1 E1].
  destruct (drain_is_schedule (cmeasure (fold_left sched_step sched (init l))) (fold_left sched_step sched (init l))) as [s2 E2].
  exists (s1 ++ s2). rewrite fold_left_app, <- E1. exact E2.
Qed.

(* ---------- the log is a sequence of single-owner sections, the last one possibly open ---------- *)
Definition open_tail (n : nat) (h : option tid) (tail : list (tid * gev)) : Prop :=
  match h with
  | None => tail = []
  | Some t => exists body, tail = (t, EAcq) :: map (pair t) body /\ Forall is_call body /\ t < n
  end.
Definition sec_ok (n : nat) (s : tid * list gev) : Prop := fst s < n /\ Forall is_call (snd s).

Lemma mon_sections n log :
  (forall h, mon n None log = Some h ->
     exists secs tail, log = flat_map render secs ++ tail /\ Forall (sec_ok n) secs /\ open_tail n h tail)
  /\ (forall t h, mon n (Some t) log = Some h ->
        (exists body, log = map (pair t) body /\ Forall is_call body /\ h = Some t)
        \/ (exists body secs tail, log = map (pair t) body ++ (t, ERel) :: flat_map render secs ++ tail
                                   /\ Forall is_call body /\ Forall (sec_ok n) secs /\ open_tail n h tail)).
Proof.
  induction log as [|[u e] r [IH1 IH2]]; split.
  - intros h H; injection H as <-. exists [], []. repeat split; constructor.
  - intros t h H; injection H as <-. left. exists []. repeat split; constructor.
  - intros h. simpl. destruct e; simpl; try discriminate.
    destruct (u <? n) eqn:Elt; [|discriminate]. apply Nat.ltb_lt in Elt. intro H.
    destruct (IH2 u h H) as [(body & -> & Hb & ->)|(body & secs & tail & -> & Hb & Hs & Ho)].
    + exists [], ((u, EAcq) :: map (pair u) body). simpl. repeat split; [constructor|]. exists body. auto.
    + exists ((u, body) :: secs), tail. repeat split.
      * simpl. unfold render at 1. simpl. unfold section. rewrite map_app. simpl. rewrite <- !app_assoc. reflexivity.
      * constructor; [split; assumption | exact Hs].
      * exact Ho.
  - intros t h. simpl. destruct e; simpl; try discriminate.
    + destruct (t =? u) eqn:E; [|discriminate]. apply Nat.eqb_eq in E; subst u.
      destruct (t <? n); [|discriminate]. intro H.
      destruct (IH1 h H) as (secs & tail & -> & Hs & Ho).
      right. exists [], secs, tail. repeat split; [constructor | exact Hs | exact Ho].
    + destruct (t =? u) eqn:E; [|discriminate]. apply Nat.eqb_eq in E; subst u.
      destruct (t <? n); [|discriminate]. intro H.
      destruct (IH2 t h H) as [(body & -> & Hb & ->)|(body & secs & tail & -> & Hb & Hs & Ho)].
      * left. exists (ECall c raised :: body). repeat split. constructor; [exact I | exact Hb].
      * right. exists (ECall c raised :: body), secs, tail. repeat split; auto. constructor; [exact I | exact Hb].
Qed.

(* ---------- every section of a thread has the shape of a block ---------- *)
Lemma cut_shape fl oc st cs : forall k,
  (exists ro rs, fst (cut fl k cs (tail2 fl oc st)) = map okc cs ++ [ECall oc ro; ECall st rs])
  \/ (exists j c, nth_error cs j = Some c /\ fst (cut fl k cs (tail2 fl oc st)) = map okc (firstn j cs) ++ [ECall c true]).
Proof.
  induction cs as [|c cs IH]; intro k; simpl.
  - left. eauto.
  - destruct (memb k fl).
    + right. exists 0, c. split; reflexivity.
    + destruct (IH (S k)) as [(ro & rs & E)|(j & c' & Hj & E)];
        destruct (cut fl (S k) cs (tail2 fl oc st)) as [l k']; simpl in *.
      * left. exists ro, rs. rewrite E. reflexivity.
      * right. exists (S j), c'. split; [exact Hj|]. rewrite E. reflexivity.
Qed.

Lemma replay_prefix f n : exists gs, replay f n = prefix_calls (f_start f) n (now_tv f) gs /\ length gs <= 2.
Proof.
  unfold replay, prefix_calls.
  destruct (any_tags (f_global f)), (any_tags (f_test f)).
  - exists [f_global f; f_test f]. split; [reflexivity | simpl; lia].
  - exists [f_global f]. split; [reflexivity | simpl; lia].
  - exists [f_test f]. split; [reflexivity | simpl; lia].
  - exists []. split; [reflexivity | simpl; lia].
Qed.

Lemma ptrace_call_shape fl f c k :
  let '(l, _, _) := ptrace fl (expand f c) f k in l = [] \/ exists body, l = section body /\ block_shape body.
Proof.
  destruct c as [a|tn tg|n|n|kd n|g|]; try (simpl; left; reflexivity).
  - destruct (ptrace_outcome fl f kd n k) as (f' & E & _). rewrite E. right.
    eexists; split; [reflexivity|].
    destruct (replay_prefix f n) as (gs & -> & Hl).
    destruct (cut_shape fl (TOutcome kd n) (TStopTest n) (prefix_calls (f_start f) n (now_tv f) gs) k)
      as [(ro & rs & ->)|(j & c' & Hj & ->)].
    + apply bs_full; exact Hl.
    + apply bs_cut; assumption.
  - assert (G : forall f0 c0, ptrace fl (guarded (TGuard c0)) f0 k = (section [ECall (TGuard c0) (memb k fl)], f0, S k))
      by (intros; apply ptrace_guarded).
    destruct g; simpl expand; try (rewrite G; right; eexists; split; [reflexivity | constructor]).
    change (ptrace fl (PLoc LStartRun (guarded (TGuard GStartRun))) f k)
      with (ptrace fl (guarded (TGuard GStartRun)) (apply_lop LStartRun f) k).
    rewrite G. right; eexists; split; [reflexivity | constructor].
Qed.

Lemma strace_sections fl s : forall f k,
  exists bodies, strace fl s f k = flat_map section bodies /\ Forall block_shape bodies.
Proof.
  induction s as [|c r IH]; intros f k.
  - exists []. split; [reflexivity | constructor].
  - change (strace fl (c :: r) f k) with (let '(l, f', k') := ptrace fl (expand f c) f k in l ++ strace fl r f' k').
    pose proof (ptrace_call_shape fl f c k) as H.
    destruct (ptrace fl (expand f c) f k) as [[l f'] k'].
    destruct (IH f' k') as (bodies & E & Hb). rewrite E.
    destruct H as [->|(body & -> & Hs)].
    + exists bodies. split; [reflexivity | exact Hb].
    + exists (body :: bodies). split; [reflexivity | constructor; assumption].
Qed.

Theorem blocks_all_schedules l sched :
  let c := fold_left step' sched (init l) in
  (exists secs tail, glog c = flat_map render secs ++ tail
                     /\ Forall (sec_ok (length l)) secs /\ open_tail (length l) (sem c) tail)
  /\ (forall t sc fl, nth_error l t = Some (sc, fl) ->
        exists rest bodies, proj t (glog c) ++ rest = flat_map section bodies /\ Forall block_shape bodies).
Proof.
  simpl. destruct (ginv_sched l sched) as (HI & HM & [HL HP]). set (c := fold_left step' sched (init l)) in *. split.
  - unfold MonInv in HM. rewrite HL in HM. simpl in HM. rewrite map_length in HM.
    apply (proj1 (mon_sections (length l) (glog c))). exact HM.
  - intros t sc fl Ht.
    assert (H0 : nth_error (ths (init l)) t = Some (init_thread sc fl None)).
    { simpl. rewrite (map_nth_error _ _ _ Ht). reflexivity. }
    destruct (HP t _ H0) as (th & Hn & Hp).
    assert (Hb0 : fb (init_thread sc fl None) = None) by (unfold init_thread; apply norm_ttrace; reflexivity).
    destruct (tpath_ttrace _ _ _ Hp Hb0) as [E _]. rewrite init_ttrace in E.
    destruct (strace_sections fl sc fwd0 0) as (bodies & Eb & Hb).
    exists (ttrace th), bodies. split; [congruence | exact Hb].
Qed.

(* ---------- each thread's part of the log, at every moment, is a prefix of what the statement expects ---------- *)
Theorem per_thread_all_schedules l sched t sc fl :
  nth_error l t = Some (sc, fl) -> wf_script Out sc = true ->
  let c := fold_left step' sched (init l) in
  exists rest, proj t (glog c) ++ rest = expected fl sc sst0 0
               /\ (forall th, nth_error (ths c) t = Some th -> finished th = true -> rest = []).
Proof.
  intros Ht Hw. simpl. destruct (ginv_sched l sched) as (HI & HM & [HL HP]).
  set (c := fold_left step' sched (init l)) in *.
  assert (H0 : nth_error (ths (init l)) t = Some (init_thread sc fl None)).
  { simpl. rewrite (map_nth_error _ _ _ Ht). reflexivity. }
  destruct (HP t _ H0) as (th & Hn & Hp).
  assert (Hb0 : fb (init_thread sc fl None) = None) by (unfold init_thread; apply norm_ttrace; reflexivity).
  destruct (tpath_ttrace _ _ _ Hp Hb0) as [E _]. rewrite init_ttrace in E.
  rewrite (strace_expected fl sc Out fwd0 sst0 0 Hw rel0) in E.
  exists (ttrace th). split; [symmetry; exact E|].
  intros th' Hn' Hf. rewrite Hn in Hn'; injection Hn' as <-.
  destruct HI as [HI _]. specialize (HI t th Hn).
  destruct (holds c t).
  - destruct HI as [Hwin _]. unfold finished in Hf. destruct (pc th); simpl in *; discriminate.
  - apply finished_ttrace; [apply HI | exact Hf].
Qed.

(* without faults every outcome of a well-formed script is in the expected log exactly once, in order *)
Lemma outcomes_app a b : outcomes_of_log (a ++ b) = outcomes_of_log a ++ outcomes_of_log b.
Proof.
  induction a as [|e a IH]; simpl; [reflexivity|].
  destruct e as [| |c raised]; try exact IH. destruct c; simpl; rewrite ?IH; reflexivity.
Qed.

Lemma cut_nofault cs tail : forall k, cut [] k cs tail = (map okc cs ++ fst (tail (k + length cs)), snd (tail (k + length cs))).
Proof.
  induction cs as [|c cs IH]; intro k; simpl.
  - rewrite Nat.add_0_r. destruct (tail k); reflexivity.
  - rewrite IH. rewrite <- Nat.add_succ_comm. reflexivity.
Qed.

Lemma outcomes_tag_call g : outcomes_of_log (map okc (tag_call g)) = [].
Proof. unfold tag_call. destruct (any_tags g); reflexivity. Qed.

Theorem expected_outcomes_once s : forall p st k,
  wf_script p s = true -> (match p with Out => True | _ => s_open st <> None end) ->
  outcomes_of_log (expected [] s st k) = outcomes_of_script s.
Proof.
  induction s as [|c r IH]; intros p st k Hwf Hop; [reflexivity|].
  destruct c as [a|tn tg|n|n|kd n|g|]; simpl in Hwf.
  - simpl. apply (IH p); [exact Hwf|]. destruct p; simpl; auto.
  - simpl. apply (IH p); [exact Hwf|]. destruct p; simpl; auto; destruct (s_open st) as [[t0 x]|]; simpl; congruence.
  - destruct p; try discriminate. simpl. apply (IH (Pre n)); [exact Hwf|]. simpl. discriminate.
  - destruct p as [|m|m]; try discriminate; apply andb_true_iff in Hwf as [_ Hwf]; simpl; apply (IH Out); auto.
  - destruct p as [|m|m]; try discriminate. apply andb_true_iff in Hwf as [_ Hwf].
    destruct (s_open st) as [[t0 x]|] eqn:Eo; [|contradiction].
    rewrite (expected_outcome [] kd n r st k t0 x Eo). rewrite cut_nofault. simpl fst; simpl snd.
    unfold section. simpl outcomes_of_log. rewrite !outcomes_app. rewrite !map_app, !outcomes_app, !outcomes_tag_call.
    simpl. f_equal. apply (IH (Post n)); [exact Hwf|]. simpl. congruence.
  - destruct g; simpl.
    + destruct p; try discriminate. apply (IH Out); auto.
    + destruct p; try discriminate. apply (IH Out); auto.
    + apply (IH p); auto.
    + apply (IH p); auto.
    + apply (IH p); auto.
  - discriminate.
Qed.
