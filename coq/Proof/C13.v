(* C13 - proofs.  Part 1: the harness scheduler for any step function; part 2: the stream suite;
   part 3: the classic suite (on top of the thread-level lemmas of Proof/C12.v). *)
From TT Require Import Lib.Base Model.Tfr Model.Concur Spec.C12 Spec.C13 Corr.C13 Proof.C12.

(* ====================================================================================== *)
(* 1. the scheduler, generically                                                            *)
(* ====================================================================================== *)
Section SchedFacts.
  Context {C : Type}.
  Variable stepf : C -> tid -> option C.
  Variable nthr : C -> nat.
  Variable P : C -> Prop.
  Variable m : C -> nat.
  Variable fin : C -> bool.
  Hypothesis P_step : forall c t c', P c -> stepf c t = Some c' -> P c'.
  Hypothesis m_step : forall c t c', P c -> stepf c t = Some c' -> m c' < m c.
  Hypothesis P_live : forall c, P c -> fin c = false -> exists t, t < nthr c /\ stepf c t <> None.

  Lemma gpick_some c cands : forall c', gpick_from stepf c cands = Some c' -> exists t, stepf c t = Some c'.
  Proof.
    induction cands as [|t r IH]; intros c' H; simpl in H; [discriminate|].
    destruct (stepf c t) eqn:E; [injection H as <-; eauto | apply IH; exact H].
  Qed.

  Lemma gpick_none c cands : gpick_from stepf c cands = None -> forall t, In t cands -> stepf c t = None.
  Proof.
    induction cands as [|u r IH]; intros H t Hin; simpl in *; [contradiction|].
    destruct (stepf c u) eqn:E; [discriminate|]. destruct Hin as [<-|Hin]; [exact E | apply IH; assumption].
  Qed.

  Lemma gsched_P c t : P c -> P (gsched_step stepf nthr c t) /\ m (gsched_step stepf nthr c t) <= m c.
  Proof.
    intro H. unfold gsched_step. destruct (gpick_from stepf c (rot (nthr c) t)) as [c'|] eqn:E; [|split; [exact H | lia]].
    destruct (gpick_some _ _ _ E) as [u Hu]. split; [eapply P_step; eauto | apply m_step in Hu; [lia | exact H]].
  Qed.

  Lemma gfold_P sched : forall c, P c ->
    P (fold_left (gsched_step stepf nthr) sched c) /\ m (fold_left (gsched_step stepf nthr) sched c) <= m c.
  Proof.
    induction sched as [|t s IH]; intros c H; simpl; [split; [exact H | lia]|].
    destruct (gsched_P c t H) as [H1 H2]. destruct (IH _ H1) as [H3 H4]. split; [exact H3 | lia].
  Qed.

  Lemma gdrain_done fuel : forall c, P c -> m c <= fuel ->
    P (gdrain stepf nthr fuel c) /\ fin (gdrain stepf nthr fuel c) = true.
  Proof.
    induction fuel as [|k IH]; intros c HP Hm; simpl.
    - split; [exact HP|]. destruct (fin c) eqn:E; [reflexivity|].
      destruct (P_live c HP E) as (t & _ & Ht). destruct (stepf c t) eqn:Es; [|contradiction].
      apply m_step in Es; [lia | exact HP].
    - destruct (gpick_from stepf c (seq 0 (nthr c))) as [c'|] eqn:E.
      + destruct (gpick_some _ _ _ E) as [u Hu]. apply IH; [eapply P_step; eauto|].
        apply m_step in Hu; [lia | exact HP].
      + split; [exact HP|]. destruct (fin c) eqn:Ef; [reflexivity|].
        destruct (P_live c HP Ef) as (t & Hlt & Ht). exfalso. apply Ht.
        apply (gpick_none _ _ E). apply in_seq. lia.
  Qed.

  (* the harness scheduler's run is one of the schedules *)
  Lemma gsched_is_schedule c t : exists s, gsched_step stepf nthr c t = fold_left (gstep' stepf) s c.
  Proof.
    unfold gsched_step. destruct (gpick_from stepf c (rot (nthr c) t)) as [c'|] eqn:E.
    - destruct (gpick_some _ _ _ E) as [u Hu]. exists [u]. simpl. unfold gstep'. rewrite Hu. reflexivity.
    - exists []. reflexivity.
  Qed.
  Lemma gfold_is_schedule sched : forall c, exists s,
    fold_left (gsched_step stepf nthr) sched c = fold_left (gstep' stepf) s c.
  Proof.
    induction sched as [|t r IH]; intro c; simpl.
    - exists []. reflexivity.
    - destruct (gsched_is_schedule c t) as [s1 E1]. destruct (IH (gsched_step stepf nthr c t)) as [s2 E2].
      exists (s1 ++ s2). rewrite fold_left_app, <- E1. exact E2.
  Qed.
  Lemma gdrain_is_schedule fuel : forall c, exists s, gdrain stepf nthr fuel c = fold_left (gstep' stepf) s c.
  Proof.
    induction fuel as [|k IH]; intro c; simpl.
    - exists []. reflexivity.
    - destruct (gpick_from stepf c (seq 0 (nthr c))) as [c'|] eqn:E.
      + destruct (gpick_some _ _ _ E) as [u Hu]. destruct (IH c') as [s Es].
        exists (u :: s). simpl. unfold gstep' at 2. rewrite Hu. exact Es.
      + exists []. reflexivity.
  Qed.

  Lemma gsteps_P sched : forall c, P c -> P (fold_left (gstep' stepf) sched c).
  Proof.
    induction sched as [|t s IH]; intros c H; simpl; [exact H|]. apply IH. unfold gstep'.
    destruct (stepf c t) eqn:E; [eapply P_step; eauto | exact H].
  Qed.
End SchedFacts.

(* ====================================================================================== *)
(* 2. ConcurrentStreamTestSuite                                                             *)
(* ====================================================================================== *)
Definition qowner (q : qitem) : nat :=
  match q with QToken w | QStart w | QStop w | QStatus w _ _ _ => w end.
Definition fw (w : nat) (l : list qitem) : list qitem := filter (fun q => qowner q =? w) l.
Definition putsq (tr : list (tid * cev)) : list qitem :=
  flat_map (fun e => match snd e with CPut q => [q] | _ => [] end) tr.
Definition gotten (tr : list (tid * cev)) : list qitem :=
  flat_map (fun e => match snd e with CGet q => [q] | _ => [] end) tr.
Definition stopsq (l : list qitem) : list nat :=
  flat_map (fun q => match q with QStop w => [w] | _ => [] end) l.
Definition to3 (x : nat * nat * option nat * bool * bool) : nat * nat * option nat := fst (fst x).

Lemma fw_app w a b : fw w (a ++ b) = fw w a ++ fw w b.
Proof. apply filter_app. Qed.
Lemma ev_of_app a b : ev_of (a ++ b) = ev_of a ++ ev_of b.
Proof. induction a as [|q a IH]; simpl; [reflexivity|]. destruct q; simpl; rewrite ?IH; reflexivity. Qed.
Lemma stopsq_app a b : stopsq (a ++ b) = stopsq a ++ stopsq b.
Proof. apply flat_map_app. Qed.

(* readers over a log extended by one event *)
Lemma putsq_snoc tr t e : putsq (tr ++ [(t, e)]) = putsq tr ++ match e with CPut q => [q] | _ => [] end.
Proof. unfold putsq. rewrite flat_map_app. simpl. rewrite app_nil_r. reflexivity. Qed.
Lemma gotten_snoc tr t e : gotten (tr ++ [(t, e)]) = gotten tr ++ match e with CGet q => [q] | _ => [] end.
Proof. unfold gotten. rewrite flat_map_app. simpl. rewrite app_nil_r. reflexivity. Qed.
Lemma spawns_snoc tr t e : spawns (tr ++ [(t, e)]) = spawns tr ++ match e with CSpawn w => [w] | _ => [] end.
Proof. unfold spawns. rewrite flat_map_app. simpl. rewrite app_nil_r. reflexivity. Qed.
Lemma joins_snoc tr t e : joins (tr ++ [(t, e)]) = joins tr ++ match e with CJoin w => [w] | _ => [] end.
Proof. unfold joins. rewrite flat_map_app. simpl. rewrite app_nil_r. reflexivity. Qed.
Lemma delivered_snoc w tr t e :
  delivered w (tr ++ [(t, e)]) =
  delivered w tr ++ match e with CStatus w' i s o ts r => if w' =? w then [(i, s, o, ts, r)] else [] | _ => [] end.
Proof. unfold delivered. rewrite flat_map_app. simpl. rewrite app_nil_r. reflexivity. Qed.
Lemma has_intr_snoc tr t e :
  has_intr (tr ++ [(t, e)]) = has_intr tr || match e with CGetIntr => true | _ => false end.
Proof. unfold has_intr. rewrite existsb_app. simpl. rewrite orb_false_r. reflexivity. Qed.
Lemma status_raised_snoc tr t e :
  status_raised (tr ++ [(t, e)]) = status_raised tr || match e with CStatus _ _ _ _ _ true => true | _ => false end.
Proof. unfold status_raised. rewrite existsb_app. simpl. rewrite orb_false_r. reflexivity. Qed.
Lemma cg_log_snoc tr t e : cg_log (tr ++ [(t, e)]) = cg_log tr ++ match e with CG g => [(t, g)] | _ => [] end.
Proof. unfold cg_log. rewrite flat_map_app. simpl. rewrite app_nil_r. reflexivity. Qed.
Lemma main_stops_snoc tr t e :
  main_stops (tr ++ [(t, e)]) =
  main_stops tr ++ match t, e with 0, CG (ECall (TGuard GStop) b) => [b] | _, _ => [] end.
Proof.
  unfold main_stops. rewrite flat_map_app. f_equal. simpl. rewrite app_nil_r. reflexivity.
Qed.
Lemma forallb_snoc {A} (p : A -> bool) l x : forallb p (l ++ [x]) = forallb p l && p x.
Proof. rewrite forallb_app. simpl. rewrite andb_true_r. reflexivity. Qed.

(* what a worker puts *)
Lemma emits_owner w base s : Forall (fun q => qowner q = w) (emits w base s).
Proof.
  induction s as [|[id st own|] r IH]; simpl; [constructor | constructor; [reflexivity | exact IH] |].
  destruct base; repeat constructor.
Qed.
Lemma emits_nostop w base s : stopsq (emits w base s) = [].
Proof. induction s as [|[id st own|] r IH]; simpl; [reflexivity | exact IH | destruct base; reflexivity]. Qed.
Lemma emits_length w base s : length (emits w base s) <= length s + 2.
Proof. induction s as [|[id st own|] r IH]; simpl; [lia | lia | destruct base; simpl; lia]. Qed.
Lemma worker_puts_owner w base s : Forall (fun q => qowner q = w) (worker_puts w base s).
Proof.
  unfold worker_puts. constructor; [reflexivity|]. apply Forall_app. split; [apply emits_owner | repeat constructor].
Qed.
Lemma worker_puts_length w base s : length (worker_puts w base s) <= length s + 4.
Proof. unfold worker_puts. simpl. rewrite app_length. simpl. pose proof (emits_length w base s). lia. Qed.

Lemma fw_all w l : Forall (fun q => qowner q = w) l -> fw w l = l.
Proof.
  induction 1 as [|q l Hq Hl IH]; simpl; [reflexivity|]. rewrite Hq, Nat.eqb_refl, IH. reflexivity.
Qed.
Lemma fw_none w v l : Forall (fun q => qowner q = v) l -> v <> w -> fw w l = [].
Proof.
  induction 1 as [|q l Hq Hl IH]; intro Hne; simpl; [reflexivity|]. rewrite Hq.
  destruct (v =? w) eqn:E; [apply Nat.eqb_eq in E; contradiction | apply IH; exact Hne].
Qed.

(* a prefix of worker_puts that contains QStop is all of it *)
Lemma stop_is_last w base s a b : a ++ b = worker_puts w base s -> In (QStop w) a -> b = [].
Proof.
  unfold worker_puts. intros E Hin.
  assert (Hs : stopsq (a ++ b) = [w]).
  { rewrite E. change (QStart w :: emits w base s ++ [QStop w]) with ([QStart w] ++ emits w base s ++ [QStop w]).
    rewrite !stopsq_app, emits_nostop. reflexivity. }
  destruct b as [|q b]; [reflexivity|]. exfalso.
  assert (Hlast : exists b', q :: b = b' ++ [QStop w]).
  { assert (L : last (a ++ q :: b) (QStart 0) = QStop w).
    { rewrite E. rewrite app_comm_cons. apply last_last. }
    destruct (exists_last (l := q :: b)) as (b' & x & Eb); [discriminate|]. exists b'. rewrite Eb.
    rewrite Eb, app_assoc, last_last in L. rewrite L. reflexivity. }
  destruct Hlast as [b' Eb]. rewrite Eb, !stopsq_app in Hs. simpl in Hs.
  apply in_split in Hin as (a1 & a2 & ->). rewrite !stopsq_app in Hs. simpl in Hs.
  apply (f_equal (@length nat)) in Hs. repeat (rewrite app_length in Hs; simpl in Hs). lia.
Qed.

Section Stream.
  Variable i : sinput.
  Let n := length (si_suites i).
  Let K := started n (si_mt_raise i).
  Let base := si_base i.

  Definition pend_status (c : sconf) : list qitem := match s_main c with SMStatus q => [q] | _ => [] end.
  Definition pend_join (c : sconf) : list nat := match s_main c with SMJoin w => [w] | _ => [] end.
  Definition unreaped_of (k : nat) (popped : list nat) : list nat :=
    filter (fun w => negb (memb w popped)) (seq 0 k).
  Definition raise_expected (tr : list (tid * cev)) : bool :=
    mt_raises n (si_mt_raise i) || has_intr tr || status_raised tr.

  Record SInv (c : sconf) : Prop := {
    sv_le : length (s_workers c) <= K;
    sv_spawns : spawns (s_log c) = seq 0 (length (s_workers c));
    sv_own : forallb (own_thread K) (s_log c) = true;
    sv_workers : forall w todo, nth_error (s_workers c) w = Some todo ->
        exists s, nth_error (si_suites i) w = Some s /\ fw w (putsq (s_log c)) ++ todo = worker_puts w base s;
    sv_fifo : forall w, fw w (gotten (s_log c) ++ s_queue c) = fw w (putsq (s_log c));
    sv_qown : Forall (fun q => qowner q < length (s_workers c)) (gotten (s_log c) ++ s_queue c);
    sv_deliv : forall w, map to3 (delivered w (s_log c)) ++ ev_of (fw w (pend_status c)) = ev_of (fw w (gotten (s_log c)));
    sv_ts : forall w, forallb (fun x => snd (fst x)) (delivered w (s_log c)) = true;
    sv_joins : joins (s_log c) ++ pend_join c = stopsq (gotten (s_log c));
    sv_pend_is_status : forall q, s_main c = SMStatus q -> exists w id st own, q = QStatus w id st own;
    sv_phase :
      match s_main c with
      | SMSpawn j => j = length (s_workers c) /\ j < K /\ gotten (s_log c) = [] /\ s_queue c = s_queue c
      | SMDone =>
          s_raised c = raise_expected (s_log c)
          /\ s_stops c = (if s_raised c then unreaped_of K (joins (s_log c)) else [])
          /\ length (s_live c) = K /\ length (s_workers c) = K
          /\ (s_raised c = false -> forallb negb (s_live c) = true)
      | _ => length (s_workers c) = K /\ K = n /\ mt_raises n (si_mt_raise i) = false
             /\ (match s_main c with SMJoin _ => True | _ => s_unreaped c <> [] end)
      end;
    sv_running :
      match s_main c with
      | SMDone => True
      | _ => s_raised c = false /\ s_stops c = [] /\ has_intr (s_log c) = false /\ status_raised (s_log c) = false
             /\ s_unreaped c = unreaped_of (length (s_workers c)) (stopsq (gotten (s_log c)))
      end
  }.
End Stream.
