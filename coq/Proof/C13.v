(* C13 - proofs.  Part 1: the harness scheduler for any step function; part 2: the stream suite;
   part 3: the classic suite (on top of the thread-level lemmas of Proof/C12.v). *)
From TT Require Import Lib.Base Model.Tfr Model.Concur Spec.C12 Spec.C13 Corr.C13 Proof.C12.

(* ====================================================================================== *)
(* 1. the scheduler, generically                                                            *)
(* ====================================================================================== *)
Section SchedFacts.
  Context {C : Type}.
  Variable stepf : C -> tid -> option C.
  Variable nthr : C -> nat.
  Variable P : C -> Prop.
  Variable m : C -> nat.
  Variable fin : C -> bool.
  Hypothesis P_step : forall c t c', P c -> stepf c t = Some c' -> P c'.
  Hypothesis m_step : forall c t c', P c -> stepf c t = Some c' -> m c' < m c.
  Hypothesis P_live : forall c, P c -> fin c = false -> exists t, t < nthr c /\ stepf c t <> None.

  Lemma gpick_some c cands : forall c', gpick_from stepf c cands = Some c' -> exists t, stepf c t = Some c'.
  Proof.
    induction cands as [|t r IH]; intros c' H; simpl in H; [discriminate|].
    destruct (stepf c t) eqn:E; [injection H as <-; eauto | apply IH; exact H].
  Qed.

  Lemma gpick_none c cands : gpick_from stepf c cands = None -> forall t, In t cands -> stepf c t = None.
  Proof.
    induction cands as [|u r IH]; intros H t Hin; simpl in *; [contradiction|].
    destruct (stepf c u) eqn:E; [discriminate|]. destruct Hin as [<-|Hin]; [exact E | apply IH; assumption].
  Qed.

  Lemma gsched_P c t : P c -> P (gsched_step stepf nthr c t) /\ m (gsched_step stepf nthr c t) <= m c.
  Proof.
    intro H. unfold gsched_step. destruct (gpick_from stepf c (rot (nthr c) t)) as [c'|] eqn:E; [|split; [exact H | lia]].
    destruct (gpick_some _ _ _ E) as [u Hu]. split; [eapply P_step; eauto | apply m_step in Hu; [lia | exact H]].
  Qed.

  Lemma gfold_P sched : forall c, P c ->
    P (fold_left (gsched_step stepf nthr) sched c) /\ m (fold_left (gsched_step stepf nthr) sched c) <= m c.
  Proof.
    induction sched as [|t s IH]; intros c H; simpl; [split; [exact H | lia]|].
    destruct (gsched_P c t H) as [H1 H2]. destruct (IH _ H1) as [H3 H4]. split; [exact H3 | lia].
  Qed.

  Lemma gdrain_done fuel : forall c, P c -> m c <= fuel ->
    P (gdrain stepf nthr fuel c) /\ fin (gdrain stepf nthr fuel c) = true.
  Proof.
    induction fuel as [|k IH]; intros c HP Hm; simpl.
    - split; [exact HP|]. destruct (fin c) eqn:E; [reflexivity|].
      destruct (P_live c HP E) as (t & _ & Ht). destruct (stepf c t) eqn:Es; [|contradiction].
      apply m_step in Es; [lia | exact HP].
    - destruct (gpick_from stepf c (seq 0 (nthr c))) as [c'|] eqn:E.
      + destruct (gpick_some _ _ _ E) as [u Hu]. apply IH; [eapply P_step; eauto|].
        apply m_step in Hu; [lia | exact HP].
      + split; [exact HP|]. destruct (fin c) eqn:Ef; [reflexivity|].
        destruct (P_live c HP Ef) as (t & Hlt & Ht). exfalso. apply Ht.
        apply (gpick_none _ _ E). apply in_seq. lia.
  Qed.

  (* the harness scheduler's run is one of the schedules *)
  Lemma gsched_is_schedule c t : exists s, gsched_step stepf nthr c t = fold_left (gstep' stepf) s c.
  Proof.
    unfold gsched_step. destruct (gpick_from stepf c (rot (nthr c) t)) as [c'|] eqn:E.
    - destruct (gpick_some _ _ _ E) as [u Hu]. exists [u]. simpl. unfold gstep'. rewrite Hu. reflexivity.
    - exists []. reflexivity.
  Qed.
  Lemma gfold_is_schedule sched : forall c, exists s,
    fold_left (gsched_step stepf nthr) sched c = fold_left (gstep' stepf) s c.
  Proof.
    induction sched as [|t r IH]; intro c; simpl.
    - exists []. reflexivity.
    - destruct (gsched_is_schedule c t) as [s1 E1]. destruct (IH (gsched_step stepf nthr c t)) as [s2 E2].
      exists (s1 ++ s2). rewrite fold_left_app, <- E1. exact E2.
  Qed.
  Lemma gdrain_is_schedule fuel : forall c, exists s, gdrain stepf nthr fuel c = fold_left (gstep' stepf) s c.
  Proof.
    induction fuel as [|k IH]; intro c; simpl.
    - exists []. reflexivity.
    - destruct (gpick_from stepf c (seq 0 (nthr c))) as [c'|] eqn:E.
      + destruct (gpick_some _ _ _ E) as [u Hu]. destruct (IH c') as [s Es].
        exists (u :: s). simpl. unfold gstep' at 2. rewrite Hu. exact Es.
      + exists []. reflexivity.
  Qed.

  Lemma gsteps_P sched : forall c, P c -> P (fold_left (gstep' stepf) sched c).
  Proof.
    induction sched as [|t s IH]; intros c H; simpl; [exact H|]. apply IH. unfold gstep'.
    destruct (stepf c t) eqn:E; [eapply P_step; eauto | exact H].
  Qed.
End SchedFacts.

(* ====================================================================================== *)
(* 2. ConcurrentStreamTestSuite                                                             *)
(* ====================================================================================== *)
Definition qowner (q : qitem) : nat :=
  match q with QToken w | QStart w | QStop w | QStatus w _ _ _ _ => w end.
Definition fw (w : nat) (l : list qitem) : list qitem := filter (fun q => qowner q =? w) l.
Definition putsq (tr : list (tid * cev)) : list qitem :=
  flat_map (fun e => match snd e with CPut q => [q] | _ => [] end) tr.
Definition gotten (tr : list (tid * cev)) : list qitem :=
  flat_map (fun e => match snd e with CGet q => [q] | _ => [] end) tr.
Definition stopsq (l : list qitem) : list nat :=
  flat_map (fun q => match q with QStop w => [w] | _ => [] end) l.
Definition to3 (x : nat * nat * rcode * tstamp * bool) : nat * nat * rcode * tstamp := fst x.

Lemma fw_app w a b : fw w (a ++ b) = fw w a ++ fw w b.
Proof. apply filter_app. Qed.
Lemma ev_of_app a b : ev_of (a ++ b) = ev_of a ++ ev_of b.
Proof. induction a as [|q a IH]; simpl; [reflexivity|]. destruct q; simpl; rewrite ?IH; reflexivity. Qed.
Lemma stopsq_app a b : stopsq (a ++ b) = stopsq a ++ stopsq b.
Proof. apply flat_map_app. Qed.

(* readers over a log extended by one event *)
Lemma putsq_snoc tr t e : putsq (tr ++ [(t, e)]) = putsq tr ++ match e with CPut q => [q] | _ => [] end.
Proof. unfold putsq. rewrite flat_map_app. simpl. rewrite app_nil_r. reflexivity. Qed.
Lemma gotten_snoc tr t e : gotten (tr ++ [(t, e)]) = gotten tr ++ match e with CGet q => [q] | _ => [] end.
Proof. unfold gotten. rewrite flat_map_app. simpl. rewrite app_nil_r. reflexivity. Qed.
Lemma spawns_snoc tr t e : spawns (tr ++ [(t, e)]) = spawns tr ++ match e with CSpawn w => [w] | _ => [] end.
Proof. unfold spawns. rewrite flat_map_app. simpl. rewrite app_nil_r. reflexivity. Qed.
Lemma joins_snoc tr t e : joins (tr ++ [(t, e)]) = joins tr ++ match e with CJoin w => [w] | _ => [] end.
Proof. unfold joins. rewrite flat_map_app. simpl. rewrite app_nil_r. reflexivity. Qed.
Lemma delivered_snoc w tr t e :
  delivered w (tr ++ [(t, e)]) =
  delivered w tr ++ match e with CStatus w' i s o ts r => if w' =? w then [(i, s, o, ts, r)] else [] | _ => [] end.
Proof. unfold delivered. rewrite flat_map_app. simpl. rewrite app_nil_r. reflexivity. Qed.
Lemma has_intr_snoc tr t e :
  has_intr (tr ++ [(t, e)]) = has_intr tr || match e with CGetIntr => true | _ => false end.
Proof. unfold has_intr. rewrite existsb_app. simpl. rewrite orb_false_r. reflexivity. Qed.
Lemma status_raised_snoc tr t e :
  status_raised (tr ++ [(t, e)]) = status_raised tr || match e with CStatus _ _ _ _ _ true => true | _ => false end.
Proof. unfold status_raised. rewrite existsb_app. simpl. rewrite orb_false_r. reflexivity. Qed.
Lemma cg_log_snoc tr t e : cg_log (tr ++ [(t, e)]) = cg_log tr ++ match e with CG g => [(t, g)] | _ => [] end.
Proof. unfold cg_log. rewrite flat_map_app. simpl. rewrite app_nil_r. reflexivity. Qed.
Lemma main_stops_snoc tr t e :
  main_stops (tr ++ [(t, e)]) =
  main_stops tr ++ match t, e with 0, CG (ECall (TGuard GStop) b) => [b] | _, _ => [] end.
Proof.
  unfold main_stops. rewrite flat_map_app. f_equal. simpl. rewrite app_nil_r. reflexivity.
Qed.
Lemma forallb_map' {A B} (f : A -> B) (p : B -> bool) l : forallb p (map f l) = forallb (fun x => p (f x)) l.
Proof. induction l as [|a l IH]; simpl; [reflexivity | rewrite IH; reflexivity]. Qed.
Lemma forallb_snoc {A} (p : A -> bool) l x : forallb p (l ++ [x]) = forallb p l && p x.
Proof. rewrite forallb_app. simpl. rewrite andb_true_r. reflexivity. Qed.

(* what a worker puts *)
Lemma emits_owner rt w base s : Forall (fun q => qowner q = w) (emits rt w base s).
Proof.
  induction s as [|[id st own a|] r IH]; simpl; [constructor | constructor; [reflexivity | exact IH] |].
  destruct base; repeat constructor.
Qed.
Lemma emits_nostop rt w base s : stopsq (emits rt w base s) = [].
Proof. induction s as [|[id st own a|] r IH]; simpl; [reflexivity | exact IH | destruct base; reflexivity]. Qed.
Lemma emits_length rt w base s : length (emits rt w base s) <= length s + 2.
Proof. induction s as [|[id st own a|] r IH]; simpl; [lia | lia | destruct base; simpl; lia]. Qed.
Lemma worker_puts_owner rt w base s : Forall (fun q => qowner q = w) (worker_puts rt w base s).
Proof.
  unfold worker_puts. apply Forall_app. split; [apply emits_owner | repeat constructor].
Qed.
Lemma worker_puts_length rt w base s : length (worker_puts rt w base s) <= length s + 4.
Proof. unfold worker_puts. rewrite app_length. simpl. pose proof (emits_length rt w base s). lia. Qed.

Lemma fw_all w l : Forall (fun q => qowner q = w) l -> fw w l = l.
Proof.
  induction 1 as [|q l Hq Hl IH]; simpl; [reflexivity|]. rewrite Hq, Nat.eqb_refl, IH. reflexivity.
Qed.
Lemma fw_none w v l : Forall (fun q => qowner q = v) l -> v <> w -> fw w l = [].
Proof.
  induction 1 as [|q l Hq Hl IH]; intro Hne; simpl; [reflexivity|]. rewrite Hq.
  destruct (v =? w) eqn:E; [apply Nat.eqb_eq in E; contradiction | apply IH; exact Hne].
Qed.

(* a prefix of worker_puts that contains QStop is all of it *)
Lemma stop_is_last rt w base s a b : a ++ b = worker_puts rt w base s -> In (QStop w) a -> b = [].
Proof.
  unfold worker_puts. intros E Hin.
  assert (Hs : stopsq (a ++ b) = [w]).
  { rewrite E. rewrite !stopsq_app, emits_nostop. reflexivity. }
  destruct b as [|q b]; [reflexivity|]. exfalso.
  assert (Hlast : exists b', q :: b = b' ++ [QStop w]).
  { assert (L : last (a ++ q :: b) (QStart 0) = QStop w).
    { rewrite E. apply last_last. }
    destruct (exists_last (l := q :: b)) as (b' & x & Eb); [discriminate|]. exists b'. rewrite Eb.
    rewrite Eb, app_assoc, last_last in L. rewrite L. reflexivity. }
  destruct Hlast as [b' Eb]. rewrite Eb, !stopsq_app in Hs. simpl in Hs.
  apply in_split in Hin as (a1 & a2 & ->). rewrite !stopsq_app in Hs. simpl in Hs.
  apply (f_equal (@length nat)) in Hs. repeat (rewrite app_length in Hs; simpl in Hs). lia.
Qed.

Definition unreaped_of (k : nat) (popped : list nat) : list nat :=
  filter (fun w => negb (memb w popped)) (seq 0 k).

Lemma unreaped_of_nil k : unreaped_of k [] = seq 0 k.
Proof. unfold unreaped_of. induction (seq 0 k) as [|x l IH]; simpl; [reflexivity | f_equal; exact IH]. Qed.

Lemma unreaped_of_snoc k l : unreaped_of (S k) l = unreaped_of k l ++ (if memb k l then [] else [k]).
Proof.
  unfold unreaped_of. rewrite seq_S, filter_app. simpl. destruct (memb k l); reflexivity.
Qed.

Lemma nth_error_snoc {A} (l : list A) x w y : nth_error (l ++ [x]) w = Some y ->
  (w < length l /\ nth_error l w = Some y) \/ (w = length l /\ y = x).
Proof.
  intro H. destruct (Nat.lt_ge_cases w (length l)) as [Hlt|Hge].
  - rewrite nth_error_app1 in H by exact Hlt. left; auto.
  - rewrite nth_error_app2 in H by exact Hge. destruct (w - length l) as [|d] eqn:E.
    + simpl in H. injection H as <-. right. split; [lia | reflexivity].
    + simpl in H. destruct d; discriminate.
Qed.

Lemma fw_lt_nil k l : Forall (fun q => qowner q < k) l -> fw k l = [].
Proof.
  induction 1 as [|q l Hq Hl IH]; simpl; [reflexivity|].
  destruct (qowner q =? k) eqn:E; [apply Nat.eqb_eq in E; lia | exact IH].
Qed.

Lemma memb_app x a b : memb x (a ++ b) = memb x a || memb x b.
Proof. unfold memb. apply existsb_app. Qed.

Lemma unreaped_remove k l w : remove_nat w (unreaped_of k l) = unreaped_of k (l ++ [w]).
Proof.
  unfold remove_nat, unreaped_of. induction (seq 0 k) as [|x r IH]; simpl; [reflexivity|].
  rewrite memb_app. simpl. rewrite orb_false_r.
  destruct (memb x l); simpl; [exact IH|].
  rewrite (Nat.eqb_sym x w). destruct (w =? x); simpl; [exact IH | f_equal; exact IH].
Qed.

Lemma unreaped_nil_all k l : unreaped_of k l = [] -> forall v, v < k -> memb v l = true.
Proof.
  unfold unreaped_of. intros H v Hv.
  assert (Hin : In v (seq 0 k)) by (apply in_seq; lia).
  destruct (memb v l) eqn:E; [reflexivity|]. exfalso.
  assert (In v (filter (fun w => negb (memb w l)) (seq 0 k))) by (apply filter_In; rewrite E; auto).
  rewrite H in H0. contradiction.
Qed.

Lemma stopsq_in v l : memb v (stopsq l) = true -> In (QStop v) l.
Proof.
  induction l as [|q l IH]; simpl; [discriminate|].
  destruct q; simpl; try (intro H; right; apply IH; exact H).
  destruct (v =? w) eqn:E; simpl.
  - apply Nat.eqb_eq in E; subst. intros _. left; reflexivity.
  - intro H. right. apply IH. exact H.
Qed.

(* ---- somebody can always move ---- *)
Lemma stopsq_memb v l : In (QStop v) l -> memb v (stopsq l) = true.
Proof.
  induction l as [|q l IH]; simpl; [contradiction|]. intros [->|H].
  - simpl. rewrite Nat.eqb_refl. reflexivity.
  - destruct q; simpl; try (apply IH; exact H). rewrite (IH H). apply orb_true_r.
Qed.

Lemma forallb_false_nth {A} (p : A -> bool) l : forallb p l = false -> exists w x, nth_error l w = Some x /\ p x = false.
Proof.
  induction l as [|a l IH]; simpl; [discriminate|]. destruct (p a) eqn:E; simpl.
  - intro H. destruct (IH H) as (w & x & Hw & Hx). exists (S w), x. auto.
  - intros _. exists 0, a. auto.
Qed.

Lemma unreaped_lt k l : forallb (fun w => w <? k) (unreaped_of k l) = true.
Proof.
  apply forallb_forall. intros w Hw. unfold unreaped_of in Hw. apply filter_In in Hw as [Hw _].
  apply in_seq in Hw. apply Nat.ltb_lt. lia.
Qed.

Lemma forallb_memb_self l : forallb (fun w => memb w l) l = true.
Proof.
  apply forallb_forall. intros w Hw. unfold memb. apply existsb_exists. exists w. split; [exact Hw | apply Nat.eqb_refl].
Qed.

Section Stream.
  Variable i : sinput.
  Let n := length (si_suites i).
  Let K := started n (si_mt_raise i).
  Let base := si_base i.

  Definition pend_status (c : sconf) : list qitem := match s_main c with SMStatus q => [q] | _ => [] end.
  Definition pend_join (c : sconf) : list nat := match s_main c with SMJoin w => [w] | _ => [] end.
  Definition raise_expected (tr : list (tid * cev)) : bool :=
    mt_raises n (si_mt_raise i) || has_intr tr || status_raised tr.

  Record SInv (c : sconf) : Prop := {
    sv_le : length (s_workers c) <= K;
    sv_spawns : spawns (s_log c) = seq 0 (length (s_workers c));
    sv_own : forallb (own_thread K) (s_log c) = true;
    sv_workers : forall w todo, nth_error (s_workers c) w = Some todo ->
        exists s, nth_error (si_suites i) w = Some s /\ fw w (putsq (s_log c)) ++ todo = worker_puts (sroute i w) w base s;
    sv_fifo : forall w, fw w (gotten (s_log c) ++ s_queue c) = fw w (putsq (s_log c));
    sv_qown : Forall (fun q => qowner q < length (s_workers c)) (gotten (s_log c) ++ s_queue c);
    sv_deliv : forall w, map to3 (delivered w (s_log c)) ++ ev_of (fw w (pend_status c)) = ev_of (fw w (gotten (s_log c)));
    sv_joins : joins (s_log c) ++ pend_join c = stopsq (gotten (s_log c));
    sv_nostops : main_stops (s_log c) = [];
    sv_pend : match s_main c with
              | SMStatus q => exists w id st own ts, q = QStatus w id st own ts /\ w < length (s_workers c)
              | SMJoin w => w < length (s_workers c)
              | _ => True
              end;
    sv_phase :
      match s_main c with
      | SMSpawn j => j = length (s_workers c) /\ j < K /\ gotten (s_log c) = []
      | SMDone =>
          s_raised c = raise_expected (s_log c)
          /\ s_stops c = (if s_raised c then unreaped_of K (joins (s_log c)) else [])
          /\ length (s_live c) = K /\ length (s_workers c) = K
          /\ (s_raised c = false -> forallb negb (s_live c) = true /\ unreaped_of K (joins (s_log c)) = [])
      | _ => length (s_workers c) = K /\ K = n /\ mt_raises n (si_mt_raise i) = false
             /\ (match s_main c with SMJoin _ => True | _ => s_unreaped c <> [] end)
      end;
    sv_running :
      match s_main c with
      | SMDone => True
      | _ => s_raised c = false /\ s_stops c = [] /\ has_intr (s_log c) = false /\ status_raised (s_log c) = false
             /\ s_unreaped c = unreaped_of (length (s_workers c)) (stopsq (gotten (s_log c)))
      end
  }.

  Ltac rd := unfold slog; rewrite ?putsq_snoc, ?gotten_snoc, ?spawns_snoc, ?joins_snoc, ?delivered_snoc,
               ?has_intr_snoc, ?status_raised_snoc, ?forallb_snoc, ?main_stops_snoc; simpl; rewrite ?app_nil_r, ?orb_false_r.



  (* what is known right after k workers have been started and nothing else has happened in main *)
  Lemma after_spawn_inv c k :
    length (s_workers c) = k -> k <= n -> (forall m, si_mt_raise i = Some m -> k <= m) ->
    spawns (s_log c) = seq 0 k ->
    forallb (own_thread K) (s_log c) = true ->
    (forall w todo, nth_error (s_workers c) w = Some todo ->
        exists s, nth_error (si_suites i) w = Some s /\ fw w (putsq (s_log c)) ++ todo = worker_puts (sroute i w) w base s) ->
    (forall w, fw w (gotten (s_log c) ++ s_queue c) = fw w (putsq (s_log c))) ->
    Forall (fun q => qowner q < k) (gotten (s_log c) ++ s_queue c) ->
    gotten (s_log c) = [] -> (forall w, delivered w (s_log c) = []) -> joins (s_log c) = [] ->
    has_intr (s_log c) = false -> status_raised (s_log c) = false ->
    s_raised c = false -> s_stops c = [] -> s_unreaped c = seq 0 k -> main_stops (s_log c) = [] ->
    SInv (safter_spawn i c k).
  Proof.
    intros HL Hkn Hmt Hsp Hown Hw Hfifo Hq Hg Hd Hj Hi Hs Hr Hst Hu Hms.
    assert (HK : k <= K).
    { unfold K, started. destruct (si_mt_raise i) as [m|] eqn:E; [specialize (Hmt m eq_refl); lia | exact Hkn]. }
    unfold safter_spawn.
    destruct (option_eqb Nat.eqb (si_mt_raise i) (Some k)) eqn:Emt.
    - (* make_tests raises *)
      apply (option_eqb_spec _ Nat.eqb_eq) in Emt.
      assert (EK : K = k) by (unfold K, started; rewrite Emt; lia).
      unfold sabort, sfinish. constructor; simpl; try assumption; try lia; try exact I.
      + rewrite HL; exact Hsp.
      + rewrite HL; exact Hq.
      + intro w. rewrite Hd, Hg. reflexivity.
      + rewrite Hj, Hg. reflexivity.
      + unfold raise_expected, mt_raises. fold n. rewrite Emt, Hi, Hs.
        replace (k <=? n) with true by (symmetry; apply Nat.leb_le; exact Hkn). simpl.
        rewrite Hj, Hu, EK, unreaped_of_nil, map_length, HL. repeat split; discriminate.
    - assert (Hne : si_mt_raise i <> Some k).
      { intro E. rewrite E in Emt. simpl in Emt. rewrite Nat.eqb_refl in Emt. discriminate. }
      destruct (k <? length (si_suites i)) eqn:Elt.
      + (* next sub-suite *)
        apply Nat.ltb_lt in Elt. fold n in Elt.
        assert (HK' : k < K).
        { unfold K, started. destruct (si_mt_raise i) as [m|] eqn:E; [|exact Elt].
          specialize (Hmt m eq_refl). assert (m <> k) by congruence. lia. }
        unfold sset_main. constructor; simpl; try assumption; try lia; try exact I.
        * rewrite HL; exact Hsp.
        * rewrite HL; exact Hq.
        * intro w. rewrite Hd, Hg. reflexivity.
        * rewrite Hj, Hg. reflexivity.
        * repeat split; auto.
        * rewrite Hg, HL. simpl. rewrite unreaped_of_nil. repeat split; assumption.
      + (* all started *)
        apply Nat.ltb_ge in Elt. fold n in Elt. assert (Ekn : k = n) by lia.
        assert (EK : K = k).
        { unfold K, started. destruct (si_mt_raise i) as [m|] eqn:E; [specialize (Hmt m eq_refl); lia | lia]. }
        assert (Hnr : mt_raises n (si_mt_raise i) = false).
        { unfold mt_raises. destruct (si_mt_raise i) as [m|] eqn:E; [|reflexivity].
          specialize (Hmt m eq_refl). assert (m <> k) by congruence. apply Nat.leb_gt. lia. }
        destruct (s_unreaped c) as [|u us] eqn:Eu.
        * (* no sub-suites at all *)
          assert (Hk0 : k = 0) by (rewrite <- (seq_length k 0), <- Hu; reflexivity).
          unfold sfinish. constructor; simpl; try assumption; try lia; try exact I.
          -- rewrite HL; exact Hsp.
          -- rewrite HL; exact Hq.
          -- intro w. rewrite Hd, Hg. reflexivity.
          -- rewrite Hj, Hg. reflexivity.
          -- unfold raise_expected. rewrite Hnr, Hi, Hs. simpl. rewrite map_length. repeat split; try lia.
             ++ destruct (s_workers c); [reflexivity | simpl in HL; lia].
             ++ rewrite Hj, EK, Hk0; reflexivity.
        * unfold sset_main. constructor; simpl; try assumption; try lia; try exact I.
          -- rewrite HL; exact Hsp.
          -- rewrite HL; exact Hq.
          -- intro w. rewrite Hd, Hg. reflexivity.
          -- rewrite Hj, Hg. reflexivity.
          -- repeat split; auto; try lia. rewrite Eu; discriminate.
          -- rewrite Hg, HL. simpl. rewrite unreaped_of_nil, <- Hu, Eu. repeat split; auto.
  Qed.

  Lemma sinit_inv : SInv (sinit i).
  Proof.
    unfold sinit. apply after_spawn_inv; simpl; try reflexivity; try lia; try constructor.
    intros w todo H. destruct w; discriminate.
  Qed.


  Lemma worker_put_owner c w q todo : SInv c -> nth_error (s_workers c) w = Some (q :: todo) ->
    qowner q = w /\ w < length (s_workers c).
  Proof.
    intros HI Hn. destruct (sv_workers c HI w _ Hn) as (s & Hs & E). split.
    - pose proof (worker_puts_owner (sroute i w) w base s) as Ho. rewrite <- E in Ho. apply Forall_app in Ho as [_ Ho].
      inversion Ho; assumption.
    - apply nth_error_Some. congruence.
  Qed.

  (* ---- a worker puts its next item ---- *)
  Lemma sstep_worker_inv c w c' : SInv c -> sstep_worker c w = Some c' -> SInv c'.
  Proof.
    intros HI. unfold sstep_worker. destruct (nth_error (s_workers c) w) as [[|q todo]|] eqn:Hn; try discriminate.
    intro H; injection H as <-.
    destruct (worker_put_owner c w q todo HI Hn) as [Hq Hw].
    pose proof HI as [Hle Hsp Hown Hwk Hfifo Hqo Hdl Hjo Hns Hps Hph Hrun].
    constructor; simpl; rewrite ?length_upd; try assumption.
    all: try (rd; exact Hns).
    - rd. exact Hsp.
    - rd. rewrite Hown. reflexivity.
    - intros v todo' Hv. rd. rewrite fw_app. destruct (Nat.eq_dec w v) as [<-|Hne].
      + rewrite (nth_upd_same _ _ _ _ Hn) in Hv. injection Hv as <-.
        destruct (Hwk w _ Hn) as (s & Hs & E). exists s. split; [exact Hs|].
        simpl. rewrite Hq, Nat.eqb_refl. rewrite <- app_assoc. exact E.
      + rewrite nth_upd_other in Hv by exact Hne. destruct (Hwk v _ Hv) as (s & Hs & E). exists s. split; [exact Hs|].
        simpl. rewrite Hq. destruct (w =? v) eqn:Ewv; [apply Nat.eqb_eq in Ewv; contradiction|]. rewrite app_nil_r. exact E.
    - intro v. rd. rewrite app_assoc, fw_app, Hfifo, <- fw_app. reflexivity.
    - rd. rewrite app_assoc. apply Forall_app. split; [exact Hqo|]. constructor; [lia | constructor].
    - intro v. rd. exact (Hdl v).
    - rd. exact Hjo.
    - destruct (s_main c); rd; try exact Hph.
      unfold raise_expected in *. rd. exact Hph.
    - destruct (s_main c); rd; exact Hrun.
  Qed.






  (* a worker whose stopTestRun has been dequeued has nothing left to put *)
  Lemma popped_done c v todo : SInv c -> In (QStop v) (gotten (s_log c)) -> nth_error (s_workers c) v = Some todo -> todo = [].
  Proof.
    intros HI Hin Hn. destruct (sv_workers c HI v _ Hn) as (s & Hs & E).
    apply (stop_is_last (sroute i v) v base s _ _ E). rewrite <- (sv_fifo c HI v), fw_app. apply in_or_app. left.
    apply filter_In. split; [exact Hin | simpl; apply Nat.eqb_refl].
  Qed.

  (* ---- main: start the next worker ---- *)
  Lemma sstep_spawn_inv c j c' : SInv c -> s_main c = SMSpawn j -> sstep_main i c = Some c' -> SInv c'.
  Proof.
    intros HI Em. unfold sstep_main. rewrite Em.
    destruct (nth_error (si_suites i) j) as [s|] eqn:Es; [|discriminate]. intro H; injection H as <-.
    pose proof HI as [Hle Hsp Hown Hwk Hfifo Hqo Hdl Hjo Hns Hps Hph Hrun].
    rewrite Em in Hph, Hrun. destruct Hph as (Hj & HjK & Hg). destruct Hrun as (Hr & Hst & Hi & Hsr & Hu).
    assert (Hjn : j < n) by (apply nth_error_Some; congruence).
    assert (Hfj : fw j (putsq (s_log c)) = []).
    { rewrite <- Hfifo. apply fw_lt_nil. rewrite Hj. exact Hqo. }
    assert (Hdn : forall w, delivered w (s_log c) = []).
    { intro w. specialize (Hdl w). rewrite Hg in Hdl. simpl in Hdl. apply app_eq_nil in Hdl as [Hd _].
      destruct (delivered w (s_log c)); [reflexivity | discriminate]. }
    assert (Hjn0 : joins (s_log c) = []).
    { rewrite Hg in Hjo. simpl in Hjo. apply app_eq_nil in Hjo as [Hd _]. exact Hd. }
    apply after_spawn_inv; simpl.
    - rewrite app_length. simpl. lia.
    - lia.
    - intros m Hm. unfold K, started in HjK. rewrite Hm in HjK. lia.
    - rd. change (0 :: seq 1 j) with (seq 0 (S j)). rewrite Hsp, seq_S, <- Hj. reflexivity.
    - rd. rewrite Hown. simpl. apply Nat.ltb_lt. exact HjK.
    - intros w todo Hn. rd. apply nth_error_snoc in Hn as [[Hlt Hn]|[-> ->]].
      + apply Hwk. exact Hn.
      + exists s. rewrite <- Hj. split; [exact Es|]. rewrite Hfj. reflexivity.
    - intro w. rd. apply Hfifo.
    - rd. eapply Forall_impl; [|exact Hqo]. simpl. intros q Hq. lia.
    - rd. exact Hg.
    - intro w. rd. apply Hdn.
    - rd. exact Hjn0.
    - rd. exact Hi.
    - rd. exact Hsr.
    - exact Hr.
    - exact Hst.
    - change (0 :: seq 1 j) with (seq 0 (S j)). rewrite Hu, Hg, <- Hj. simpl stopsq. rewrite unreaped_of_nil, seq_S. reflexivity.
    - rd. exact Hns.
  Qed.

  (* ---- main: queue.get() ---- *)
  Lemma sstep_get_inv c c' : SInv c -> s_main c = SMGet -> sstep_main i c = Some c' -> SInv c'.
  Proof.
    intros HI Em. unfold sstep_main. rewrite Em.
    pose proof HI as [Hle Hsp Hown Hwk Hfifo Hqo Hdl Hjo Hns Hps Hph Hrun].
    rewrite Em in Hph, Hrun. destruct Hph as (HwK & HKn & Hmt & Hune). destruct Hrun as (Hr & Hst & Hi & Hsr & Hu).
    unfold pend_status, pend_join in *. rewrite Em in Hdl, Hjo. rewrite app_nil_r in Hjo.
    assert (Hdl' : forall w, map to3 (delivered w (s_log c)) = ev_of (fw w (gotten (s_log c))))
      by (intro w0; specialize (Hdl w0); simpl in Hdl; rewrite app_nil_r in Hdl; exact Hdl).
    destruct (option_eqb Nat.eqb (si_get_intr i) (Some (s_gets c))).
    - (* interrupted *)
      intro H; injection H as <-. unfold sabort, sfinish. constructor; simpl; try assumption; try exact I.
      all: try (rd; rewrite ?app_nil_r; exact Hjo).
      all: try (rd; exact Hns).
      + rd. exact Hsp.
      + rd. rewrite Hown. reflexivity.
      + intros w todo Hn. rd. apply Hwk. exact Hn.
      + intro w. rd. apply Hfifo.
      + rd. exact Hqo.
      + intro w. rd. apply Hdl'.
      + unfold raise_expected. rd. rewrite map_length.
        repeat split; auto; try discriminate.
        * destruct (mt_raises n (si_mt_raise i)), (has_intr (s_log c)), (status_raised (s_log c)); reflexivity.
        * rewrite Hu, Hjo, HwK. reflexivity.
    - destruct (s_queue c) as [|q rest] eqn:Eq; [discriminate|]. intro H; injection H as <-.
      assert (Hqlt : qowner q < length (s_workers c)).
      { apply Forall_app in Hqo as [_ Hqo]. inversion Hqo; assumption. }
      constructor; simpl; try assumption.
      all: try (rd; exact Hns).
      + rd. exact Hsp.
      + rd. rewrite Hown. reflexivity.
      + intros w todo Hn. rd. apply Hwk. exact Hn.
      + intro w. rd. rewrite <- app_assoc. simpl. apply Hfifo.
      + rd. rewrite <- app_assoc. simpl. exact Hqo.
      + intro w. rd. rewrite fw_app, ev_of_app, <- Hdl'. f_equal.
        unfold pend_status. simpl. destruct q as [w0|w0|w0|w0 i0 s0 o0]; simpl; destruct (w0 =? w); reflexivity.
      + rd. rewrite stopsq_app, <- Hjo. unfold pend_join. simpl. destruct q; simpl; rewrite ?app_nil_r; reflexivity.
      + destruct q; simpl in *; try exact I; try exact Hqlt. eauto 8.
      + destruct q; simpl; repeat split; auto.
      + rd. rewrite stopsq_app. destruct q; simpl; rewrite ?app_nil_r; repeat split; auto.
        rewrite Hu. apply unreaped_remove.
  Qed.

  (* ---- main: result.status(...) ---- *)
  Lemma sstep_status_inv c q c' : SInv c -> s_main c = SMStatus q -> sstep_main i c = Some c' -> SInv c'.
  Proof.
    intros HI Em. unfold sstep_main. rewrite Em.
    pose proof HI as [Hle Hsp Hown Hwk Hfifo Hqo Hdl Hjo Hns Hps Hph Hrun].
    rewrite Em in Hph, Hrun, Hps. destruct Hph as (HwK & HKn & Hmt & Hune). destruct Hrun as (Hr & Hst & Hi & Hsr & Hu).
    destruct Hps as (w & id & st & own & ts & -> & Hw).
    unfold pend_status, pend_join in *. rewrite Em in Hdl, Hjo. rewrite app_nil_r in Hjo.
    intro H; injection H as <-.
    assert (HD : forall v, map to3 (delivered v (s_log c) ++ (if w =? v then [(id, st, own, ts, memb (s_mcalls c) (si_main_faults i))] else []))
                 = ev_of (fw v (gotten (s_log c)))).
    { intro v. rewrite map_app, <- Hdl. f_equal. simpl. destruct (w =? v); reflexivity. }
    destruct (memb (s_mcalls c) (si_main_faults i)) eqn:Eb.
    - (* the caller's result raises *)
      unfold sabort, sfinish. constructor; simpl; try assumption; try exact I.
      all: try (rd; rewrite ?app_nil_r; exact Hjo).
      all: try (rd; exact Hns).
      + rd. exact Hsp.
      + rd. rewrite Hown. simpl. apply Nat.ltb_lt. lia.
      + intros v todo Hn. rd. apply Hwk. exact Hn.
      + intro v. rd. apply Hfifo.
      + rd. exact Hqo.
      + intro v. rd. rewrite ?app_nil_r. apply HD.
      + unfold raise_expected. rd. rewrite map_length.
        repeat split; auto; try discriminate.
        * destruct (mt_raises n (si_mt_raise i)), (has_intr (s_log c)), (status_raised (s_log c)); reflexivity.
        * rewrite Hu, Hjo, HwK. reflexivity.
    - constructor; simpl; try assumption; try exact I.
      all: try (rd; rewrite ?app_nil_r; exact Hjo).
      all: try (rd; exact Hns).
      + rd. exact Hsp.
      + rd. rewrite Hown. simpl. apply Nat.ltb_lt. lia.
      + intros v todo Hn. rd. apply Hwk. exact Hn.
      + intro v. rd. apply Hfifo.
      + rd. exact Hqo.
      + intro v. rd. rewrite ?app_nil_r. apply HD.
      + repeat split; auto.
      + rd. repeat split; auto.
  Qed.

  (* ---- main: thread.join() ---- *)
  Lemma sstep_join_inv c w c' : SInv c -> s_main c = SMJoin w -> sstep_main i c = Some c' -> SInv c'.
  Proof.
    intros HI Em. unfold sstep_main. rewrite Em.
    destruct (nth_error (s_workers c) w) as [todo|] eqn:En; [|discriminate].
    destruct (sw_done todo) eqn:Ed; [|discriminate]. intro H; injection H as <-.
    pose proof HI as [Hle Hsp Hown Hwk Hfifo Hqo Hdl Hjo Hns Hps Hph Hrun].
    rewrite Em in Hph, Hrun, Hps. destruct Hph as (HwK & HKn & Hmt & _). destruct Hrun as (Hr & Hst & Hi & Hsr & Hu).
    unfold pend_status, pend_join in *. rewrite Em in Hdl, Hjo.
    assert (Hdl' : forall w, map to3 (delivered w (s_log c)) = ev_of (fw w (gotten (s_log c))))
      by (intro w0; specialize (Hdl w0); simpl in Hdl; rewrite app_nil_r in Hdl; exact Hdl).
    simpl. destruct (s_unreaped c) as [|u us] eqn:Eu.
    - (* the last one: run() returns *)
      unfold sfinish. constructor; simpl; try assumption; try exact I.
      all: try (rd; rewrite ?app_nil_r; exact Hjo).
      all: try (rd; exact Hns).
      + rd. exact Hsp.
      + rd. rewrite Hown. simpl. apply Nat.ltb_lt. lia.
      + intros v todo' Hn. rd. apply Hwk. exact Hn.
      + intro v. rd. apply Hfifo.
      + rd. exact Hqo.
      + intro v. rd. apply Hdl'.
      + unfold raise_expected. rd. rewrite Hmt, Hi, Hsr. simpl. rewrite map_length. repeat split; auto.
        * rewrite forallb_map'. apply forallb_forall. intros todo' Hin. rewrite negb_involutive.
          apply In_nth_error in Hin as [v Hv].
          assert (Hvk : v < length (s_workers c)) by (apply nth_error_Some; congruence).
          symmetry in Hu. pose proof (unreaped_nil_all _ _ Hu v Hvk) as Hm.
          apply stopsq_in in Hm. rewrite (popped_done c v todo' HI Hm Hv). reflexivity.
        * rewrite Hjo, <- HwK. symmetry; exact Hu.
    - unfold sset_main. constructor; simpl; try assumption; try exact I.
      all: try (rd; rewrite ?app_nil_r; exact Hjo).
      all: try (rd; exact Hns).
      + rd. exact Hsp.
      + rd. rewrite Hown. simpl. apply Nat.ltb_lt. lia.
      + intros v todo' Hn. rd. apply Hwk. exact Hn.
      + intro v. rd. apply Hfifo.
      + rd. exact Hqo.
      + intro v. rd. apply Hdl'.
      + repeat split; auto. discriminate.
      + rd. repeat split; auto.
  Qed.

  Lemma sstep_inv c t c' : SInv c -> sstep i c t = Some c' -> SInv c'.
  Proof.
    intros HI. destruct t as [|w]; simpl.
    - destruct (s_main c) eqn:Em.
      + eapply sstep_spawn_inv; eauto.
      + eapply sstep_get_inv; eauto.
      + eapply sstep_status_inv; eauto.
      + eapply sstep_join_inv; eauto.
      + unfold sstep_main. rewrite Em. discriminate.
    - eapply sstep_worker_inv; eauto.
  Qed.

  (* ---- every step decreases a measure ---- *)
  Definition sum_from (j : nat) : nat := fold_right (fun s a => sweight s + a) 0 (skipn j (si_suites i)).
  Definition smw (m : smain) : nat :=
    match m with SMDone => 0 | SMGet => 1 | SMStatus _ | SMJoin _ => 2 | SMSpawn j => 1 + sum_from j end.
  Definition todo_sum (l : list (list qitem)) : nat := fold_right (fun t a => length t + a) 0 l.
  Definition smeasure (c : sconf) : nat := smw (s_main c) + 3 * length (s_queue c) + 4 * todo_sum (s_workers c).

  Lemma sum_from_nth j s : nth_error (si_suites i) j = Some s -> sum_from j = sweight s + sum_from (S j).
  Proof.
    unfold sum_from. generalize (si_suites i). induction j as [|j IH]; intros [|x l] H; simpl in *; try discriminate.
    - injection H as ->. reflexivity.
    - apply IH. exact H.
  Qed.

  Lemma todo_sum_app a b : todo_sum (a ++ b) = todo_sum a + todo_sum b.
  Proof. induction a as [|x a IH]; simpl; [reflexivity | rewrite IH; lia]. Qed.

  Lemma todo_sum_upd l : forall w q todo, nth_error l w = Some (q :: todo) -> S (todo_sum (upd l w todo)) = todo_sum l.
  Proof.
    induction l as [|x l IH]; intros [|w] q todo H; simpl in *; try discriminate.
    - injection H as ->. simpl. lia.
    - specialize (IH w q todo H). lia.
  Qed.

  Lemma safter_spawn_measure c k :
    smw (s_main (safter_spawn i c k)) <= 1 + sum_from k
    /\ s_queue (safter_spawn i c k) = s_queue c /\ s_workers (safter_spawn i c k) = s_workers c.
  Proof.
    unfold safter_spawn. destruct (option_eqb Nat.eqb (si_mt_raise i) (Some k)); [simpl; repeat split; lia|].
    destruct (k <? length (si_suites i)); [simpl; repeat split; lia|].
    destruct (s_unreaped c); simpl; repeat split; lia.
  Qed.

  Lemma safter_spawn_bound c k :
    smeasure (safter_spawn i c k) <= 1 + sum_from k + 3 * length (s_queue c) + 4 * todo_sum (s_workers c).
  Proof. destruct (safter_spawn_measure c k) as (H1 & H2 & H3). unfold smeasure. rewrite H2, H3. lia. Qed.

  Lemma todo_sum_single x : todo_sum [x] = length x.
  Proof. simpl. lia. Qed.

  Lemma sstep_measure c t c' : sstep i c t = Some c' -> smeasure c' < smeasure c.
  Proof.
    destruct t as [|w]; simpl.
    - unfold sstep_main. destruct (s_main c) eqn:Em.
      + destruct (nth_error (si_suites i) k) as [s|] eqn:Es; [|discriminate]. intro H; injection H as <-.
        eapply Nat.le_lt_trans; [apply safter_spawn_bound|].
        cbn [s_queue s_workers]. rewrite todo_sum_app, todo_sum_single.
        unfold smeasure. rewrite Em. cbn [smw].
        rewrite (sum_from_nth _ _ Es). pose proof (worker_puts_length (sroute i k) k (si_base i) s). unfold sweight. lia.
      + destruct (option_eqb Nat.eqb (si_get_intr i) (Some (s_gets c))).
        * intro H; injection H as <-. unfold smeasure. rewrite Em. simpl. lia.
        * destruct (s_queue c) as [|q rest] eqn:Eq; [discriminate|]. intro H; injection H as <-.
          unfold smeasure. rewrite Em, Eq. simpl. destruct q; simpl; lia.
      + destruct q; try discriminate. intro H; injection H as <-.
        unfold smeasure. rewrite Em. destruct (memb (s_mcalls c) (si_main_faults i)); simpl; lia.
      + destruct (nth_error (s_workers c) w) as [todo|]; [|discriminate].
        destruct (sw_done todo); [|discriminate]. intro H; injection H as <-.
        unfold smeasure. rewrite Em. simpl. destruct (s_unreaped c); simpl; lia.
      + discriminate.
    - unfold sstep_worker. destruct (nth_error (s_workers c) w) as [[|q todo]|] eqn:En; try discriminate.
      intro H; injection H as <-. unfold smeasure. cbn [s_main s_queue s_workers]. rewrite app_length. simpl length.
      pose proof (todo_sum_upd _ _ _ _ En). lia.
  Qed.

  Lemma sinit_measure : smeasure (sinit i) <= sfuel i.
  Proof.
    unfold sinit. eapply Nat.le_trans; [apply safter_spawn_bound|].
    cbn [s_queue s_workers]. unfold sum_from, sfuel. simpl. lia.
  Qed.



  Lemma slive c : SInv c -> sall_done c = false -> exists t, t < snthr c /\ sstep i c t <> None.
  Proof.
    intros HI Hnd. unfold sall_done in Hnd.
    destruct (forallb sw_done (s_workers c)) eqn:Ew.
    - (* every worker has finished: main can move *)
      rewrite andb_true_r in Hnd. exists 0. split; [unfold snthr; lia|]. simpl.
      pose proof HI as [Hle Hsp Hown Hwk Hfifo Hqo Hdl Hjo Hns Hps Hph Hrun].
      unfold smain_done in Hnd. unfold sstep_main. destruct (s_main c) eqn:Em; try discriminate.
      + destruct Hph as (Hj & HjK & _).
        assert (Hkn : k < n) by (clear - HjK; unfold K, started in HjK; destruct (si_mt_raise i); lia).
        destruct (nth_error (si_suites i) k) eqn:E; [discriminate | apply nth_error_None in E; fold n in E; lia].
      + destruct (option_eqb Nat.eqb (si_get_intr i) (Some (s_gets c))); [discriminate|].
        destruct Hph as (HwK & HKn & Hmt & Hune). destruct Hrun as (_ & _ & _ & _ & Hu).
        destruct (s_unreaped c) as [|u us] eqn:Eu; [contradiction|].
        assert (Hin : In u (unreaped_of (length (s_workers c)) (stopsq (gotten (s_log c))))) by (rewrite <- Hu; left; reflexivity).
        unfold unreaped_of in Hin. apply filter_In in Hin as [Hseq Hnot]. apply in_seq in Hseq.
        destruct (nth_error (s_workers c) u) as [todo|] eqn:En; [|apply nth_error_None in En; lia].
        rewrite forallb_forall in Ew. pose proof (Ew _ (nth_error_In _ _ En)) as Hd.
        destruct todo; [|discriminate].
        destruct (Hwk u _ En) as (s & Hs & E). rewrite app_nil_r in E.
        assert (Hq : In (QStop u) (fw u (gotten (s_log c) ++ s_queue c))).
        { rewrite Hfifo, E. unfold worker_puts. apply in_or_app. right. left. reflexivity. }
        apply filter_In in Hq as [Hq _]. apply in_app_or in Hq as [Hq|Hq].
        * apply stopsq_memb in Hq. rewrite Hq in Hnot. discriminate.
        * destruct (s_queue c); [contradiction | discriminate].
      + destruct Hps as (w & id & st & own & ts & -> & _). discriminate.
      + destruct (nth_error (s_workers c) w) as [todo|] eqn:En; [|apply nth_error_None in En; lia].
        rewrite forallb_forall in Ew. rewrite (Ew _ (nth_error_In _ _ En)). discriminate.
    - (* a worker has something to put *)
      destruct (forallb_false_nth _ _ Ew) as (w & todo & Hw & Hd).
      exists (S w). split.
      + unfold snthr. assert (w < length (s_workers c)) by (apply nth_error_Some; congruence). lia.
      + simpl. unfold sstep_worker. rewrite Hw. destruct todo; [discriminate | discriminate].
  Qed.

  Lemma srun_inv : SInv (srun i) /\ sall_done (srun i) = true.
  Proof.
    unfold srun.
    destruct (gfold_P (sstep i) snthr SInv smeasure sstep_inv (fun c t c' _ H => sstep_measure c t c' H)
                (si_sched i) (sinit i) sinit_inv) as [H1 H2].
    apply (gdrain_done (sstep i) snthr SInv smeasure sall_done sstep_inv (fun c t c' _ H => sstep_measure c t c' H) slive).
    - exact H1.
    - pose proof sinit_measure. lia.
  Qed.
  (* ---- who was alive when run() ended had not been joined ---- *)
  Definition SLInv (c : sconf) : Prop :=
    s_main c = SMDone -> forall w b, nth_error (s_live c) w = Some b -> In w (joins (s_log c)) -> b = false.

  Lemma safter_spawn_live c k : s_main (safter_spawn i c k) = SMDone ->
    s_live (safter_spawn i c k) = map (fun w => negb (sw_done w)) (s_workers (safter_spawn i c k)).
  Proof.
    unfold safter_spawn. destruct (option_eqb Nat.eqb (si_mt_raise i) (Some k)); [reflexivity|].
    destruct (k <? length (si_suites i)); [discriminate|]. destruct (s_unreaped c); [reflexivity | discriminate].
  Qed.

  Lemma sstep_live c t c' : sstep i c t = Some c' ->
    (s_main c = SMDone /\ s_main c' = SMDone /\ s_live c' = s_live c /\ joins (s_log c') = joins (s_log c))
    \/ (s_main c <> SMDone /\ (s_main c' = SMDone -> s_live c' = map (fun w => negb (sw_done w)) (s_workers c'))).
  Proof.
    destruct t as [|w]; simpl.
    - unfold sstep_main. destruct (s_main c) eqn:Em; try discriminate; intro H; right; (split; [discriminate|]).
      + destruct (nth_error (si_suites i) k); [|discriminate]. injection H as <-. apply safter_spawn_live.
      + destruct (option_eqb Nat.eqb (si_get_intr i) (Some (s_gets c))).
        * injection H as <-. reflexivity.
        * destruct (s_queue c) as [|q0 rest]; [discriminate|]. injection H as <-. destruct q0; discriminate.
      + destruct q; try discriminate. injection H as <-.
        destruct (memb (s_mcalls c) (si_main_faults i)); [reflexivity | discriminate].
      + destruct (nth_error (s_workers c) w); [|discriminate]. destruct (sw_done l); [|discriminate].
        injection H as <-. simpl. destruct (s_unreaped c); [reflexivity | discriminate].
    - unfold sstep_worker. destruct (nth_error (s_workers c) w) as [[|q todo]|]; try discriminate.
      intro H; injection H as <-. simpl. destruct (s_main c) eqn:Em.
      all: try (right; split; [discriminate | discriminate]).
      left. repeat split; try reflexivity. unfold slog. rewrite joins_snoc. apply app_nil_r.
  Qed.

  Lemma nth_error_map_inv {A B} (f : A -> B) l : forall w b, nth_error (map f l) w = Some b ->
    exists a, nth_error l w = Some a /\ b = f a.
  Proof.
    induction l as [|x l IH]; intros [|w] b H; simpl in *; try discriminate.
    - injection H as <-. eauto.
    - apply IH. exact H.
  Qed.

  Lemma slinv_step c t c' : SInv c -> SLInv c -> sstep i c t = Some c' -> SLInv c'.
  Proof.
    intros HI HL Hs. pose proof (sstep_inv c t c' HI Hs) as HI'.
    destruct (sstep_live c t c' Hs) as [(Hd & Hd' & El & Ej)|(Hnd & Hlive)].
    - intros _ w b Hn Hin. rewrite El in Hn. rewrite Ej in Hin. apply (HL Hd w b Hn Hin).
    - intros Hd w b Hn Hin. rewrite (Hlive Hd) in Hn.
      apply nth_error_map_inv in Hn as (todo & Hn & ->).
      pose proof (sv_joins c' HI') as Hjo. unfold pend_join in Hjo. rewrite Hd, app_nil_r in Hjo.
      assert (Hm : memb w (stopsq (gotten (s_log c'))) = true).
      { rewrite <- Hjo. unfold memb. apply existsb_exists. exists w. split; [exact Hin | apply Nat.eqb_refl]. }
      apply stopsq_in in Hm. rewrite (popped_done c' w todo HI' Hm Hn). reflexivity.
  Qed.

  Lemma sinit_linv : SLInv (sinit i).
  Proof.
    unfold SLInv, sinit, safter_spawn. destruct (option_eqb Nat.eqb (si_mt_raise i) (Some 0)); simpl.
    - intros _ w b _ H. contradiction.
    - destruct (0 <? length (si_suites i)); simpl; intros _ w b _ H; contradiction.
  Qed.

  Definition SInv2 (c : sconf) : Prop := SInv c /\ SLInv c.

  Lemma srun_inv2 : SInv2 (srun i) /\ sall_done (srun i) = true.
  Proof.
    unfold srun.
    assert (St : forall c t c', SInv2 c -> sstep i c t = Some c' -> SInv2 c').
    { intros c t c' [H1 H2] Hs. split; [eapply sstep_inv; eauto | eapply slinv_step; eauto]. }
    destruct (gfold_P (sstep i) snthr SInv2 smeasure St (fun c t c' _ H => sstep_measure c t c' H)
                (si_sched i) (sinit i) (conj sinit_inv sinit_linv)) as [H1 H2].
    apply (gdrain_done (sstep i) snthr SInv2 smeasure sall_done St (fun c t c' _ H => sstep_measure c t c' H)
             (fun c H => slive c (proj1 H))).
    - exact H1.
    - pose proof sinit_measure. lia.
  Qed.
End Stream.

(* ---- the stream model meets the statement ---- *)
Lemma tstamp_eqb_refl t : tstamp_eqb t t = true.
Proof. destruct t; simpl; try reflexivity. apply Nat.eqb_refl. Qed.

Lemma ev3_eqb_refl x : ev3_eqb x x = true.
Proof.
  destruct x as [[[a b] [o1 o2]] t]. unfold ev3_eqb, rcode_eqb, pair_eqb. simpl. rewrite !Nat.eqb_refl, tstamp_eqb_refl. simpl.
  destruct o1, o2; simpl; rewrite ?Nat.eqb_refl; reflexivity.
Qed.

(* whatever a worker emits carries a timestamp: TimestampingStreamResult stamps what has none *)
Lemma emits_has_ts rt w base s : Forall (fun e : nat * nat * rcode * tstamp => has_ts (snd e) = true) (ev_of (emits rt w base s)).
Proof.
  induction s as [|[id st own a|] r IH]; simpl.
  - constructor.
  - constructor; [destruct a; reflexivity | exact IH].
  - destruct base; simpl; repeat constructor.
Qed.

(* the model's worker sends exactly what the statement expects *)
Lemma emits_clean rt w base s : ev_of (emits rt w base s) = sent_events rt base s.
Proof.
  induction s as [|[id st own a|] r IH]; simpl; [reflexivity | rewrite IH; reflexivity | destruct base; reflexivity].
Qed.

Lemma prefix_has_ts (d : list (nat * nat * rcode * tstamp * bool)) rest l :
  map to3 d ++ rest = l -> Forall (fun e : nat * nat * rcode * tstamp => has_ts (snd e) = true) l ->
  forallb (fun x => has_ts (snd (fst x))) d = true.
Proof.
  intros <- H. apply Forall_app in H as [H _]. apply forallb_forall. intros x Hx.
  rewrite Forall_forall in H. apply (H (to3 x)). apply in_map. exact Hx.
Qed.

Lemma is_prefix_app {A} (eqb : A -> A -> bool) (Hr : forall x, eqb x x = true) a b : is_prefix eqb a (a ++ b) = true.
Proof. induction a as [|x a IH]; simpl; [reflexivity | rewrite Hr, IH; reflexivity]. Qed.

Lemma nth_error_firstn {A} (l : list A) k w x : nth_error (firstn k l) w = Some x -> w < k /\ nth_error l w = Some x.
Proof.
  revert k w. induction l as [|a l IH]; intros [|k] [|w] H; simpl in *; try discriminate.
  - injection H as <-. split; [lia | reflexivity].
  - destruct (IH k w H) as [H1 H2]. split; [lia | exact H2].
Qed.

Lemma ev_of_worker_puts rt w base s : ev_of (worker_puts rt w base s) = ev_of (emits rt w base s).
Proof. unfold worker_puts. rewrite ev_of_app. simpl. apply app_nil_r. Qed.

Theorem stream_meets_spec : forall i, spec_okb (IStream i) (model (IStream i)) = true.
Proof.
  intro i. destruct (srun_inv2 i) as [[HI HL] Hd]. unfold spec_okb, model. set (c := srun i) in *.
  pose proof HI as [Hle Hsp Hown Hwk Hfifo Hqo Hdl Hjo Hns Hps Hph Hrun].
  unfold sall_done in Hd. apply andb_true_iff in Hd as [Hmd Hwd].
  unfold smain_done in Hmd. destruct (s_main c) eqn:Em; try discriminate.
  destruct Hph as (Hr & Hst & Hlive & HwK & Hnr).
  unfold pend_status, pend_join in *. rewrite Em in Hdl, Hjo. rewrite app_nil_r in Hjo.
  set (n := length (si_suites i)) in *. set (K := started n (si_mt_raise i)) in *.
  apply andb_true_iff; split.
  - (* what is common to both suites *)
    unfold common_okb. cbn [o_trace o_raised o_live o_stops o_deadlock]. fold n. fold K.
    unfold sall_done, smain_done. rewrite Em, Hwd. simpl.
    rewrite Hown, Hsp, HwK. simpl.
    rewrite (proj2 (list_eqb_spec _ Nat.eqb_eq _ _) eq_refl). simpl.
    rewrite Hlive, Nat.eqb_refl. simpl.
    unfold raise_expected in Hr. fold n in Hr. rewrite <- Hr.
    replace (Bool.eqb (s_raised c) (s_raised c)) with true by (destruct (s_raised c); reflexivity).
    rewrite Hns, Hst.
    destruct (s_raised c) eqn:Er; simpl.
    + fold (unreaped_of K (joins (s_log c))). rewrite unreaped_lt. simpl.
      apply forallb_idx_spec. intros w b Hn. simpl. destruct b; [|reflexivity]. simpl.
      assert (HwK' : w < K) by (rewrite <- Hlive; apply nth_error_Some; congruence).
      apply existsb_exists. exists w. split; [|apply Nat.eqb_refl].
      unfold unreaped_of. apply filter_In. split; [apply in_seq; lia|].
      destruct (memb w (joins (s_log c))) eqn:Em'; [|reflexivity]. exfalso.
      unfold memb in Em'. apply existsb_exists in Em' as (x & Hx & E). apply Nat.eqb_eq in E. subst x.
      specialize (HL Em w true Hn Hx). discriminate.
    + destruct (Hnr eq_refl) as [Hl _]. rewrite Hl. reflexivity.
  - (* delivery, per worker *)
    cbn [o_trace o_raised]. fold n. fold K.
    apply forallb_idx_spec. intros w s Hn. simpl.
    apply nth_error_firstn in Hn as [HwKlt Hn].
    destruct (nth_error (s_workers c) w) as [todo|] eqn:Enw; [|apply nth_error_None in Enw; lia].
    rewrite forallb_forall in Hwd. pose proof (Hwd _ (nth_error_In _ _ Enw)) as Htd. destruct todo; [|discriminate].
    destruct (Hwk w _ Enw) as (s' & Hs' & E). rewrite Hn in Hs'. injection Hs' as <-. rewrite app_nil_r in E.
    assert (Hsplit : ev_of (fw w (gotten (s_log c))) ++ ev_of (fw w (s_queue c)) = ev_of (emits (sroute i w) w (si_base i) s)).
    { rewrite <- ev_of_app, <- fw_app, Hfifo, E. apply ev_of_worker_puts. }
    specialize (Hdl w). simpl in Hdl. rewrite app_nil_r in Hdl.
    assert (Hts : forallb (fun x => has_ts (snd (fst x))) (delivered w (s_log c)) = true).
    { apply (prefix_has_ts _ (ev_of (fw w (s_queue c))) (ev_of (emits (sroute i w) w (si_base i) s))); [|apply emits_has_ts].
      rewrite Hdl. exact Hsplit. }
    unfold stream_worker_okb. fold (sroute i w). rewrite Hts. simpl.
    change (map (fun x => fst x) (delivered w (s_log c))) with (map to3 (delivered w (s_log c))).
    rewrite <- (emits_clean (sroute i w) w (si_base i) s).
    rewrite Hdl, <- Hsplit. rewrite (is_prefix_app _ ev3_eqb_refl). simpl.
    destruct (s_raised c) eqn:Er; [reflexivity|]. simpl.
    destruct (Hnr eq_refl) as [_ Hun].
    assert (Hm : memb w (joins (s_log c)) = true) by (eapply unreaped_nil_all; [exact Hun | exact HwKlt]).
    rewrite Hjo in Hm. apply stopsq_in in Hm.
    assert (Hq : fw w (s_queue c) = []).
    { apply (stop_is_last (sroute i w) w (si_base i) s (fw w (gotten (s_log c)))).
      - rewrite <- fw_app, Hfifo. exact E.
      - apply filter_In. split; [exact Hm | simpl; apply Nat.eqb_refl]. }
    rewrite Hq. simpl. rewrite app_nil_r.
    rewrite <- Hdl, map_length. apply Nat.eqb_refl.
Qed.
