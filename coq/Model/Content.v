(* Model of testtools/content.py: _iter_chunks (34-48), Content.iter_bytes /
   iter_text / as_text / __eq__ (50-115), json_content / text_content /
   content_from_file / content_from_stream / content_from_reader (238-348), and
   testcase.py:_copy_content (128-145).  Executable definitions only.

   Mutable state is explicit: a [world] holds the current bytes of the one
   stream/file a scenario uses (a BytesIO object or a file on disk), the
   BytesIO position, a counter of read() calls, and a heap of mutable Python
   list objects (location = index).  A Content's get_bytes callable is
   defunctionalised: [Stored cs] is "lambda: cs" over an immutable value,
   [Live ...] is the reader closure over the stream/file, [InList l] is a
   callback that yields the CURRENT contents of the list object at location l
   (by returning that very object, a fresh list(...) of it, or a generator over
   it - for a consumer that iterates at once these are the same). *)
From Coq Require Import String.
From TT Require Import Lib.Base Model.Utf8 Model.MimeCt Gen.Ctc16.

Inductive exn := ValueError | OSError | UnicodeDecodeError | LookupError | OutOfFuel.

Definition exn_eqb (a b : exn) : bool :=
  match a, b with
  | ValueError, ValueError | OSError, OSError | UnicodeDecodeError, UnicodeDecodeError
  | LookupError, LookupError | OutOfFuel, OutOfFuel => true
  | _, _ => false
  end.

Definition chunk := list N.

(* ---------------- sources ---------------- *)
Inductive skind := KBytesIO | KFile.         (* io.BytesIO object | path opened with open(path, "rb") per iteration *)
Inductive whence := SeekSet | SeekEnd.       (* os.SEEK_SET = 0, os.SEEK_END = 2 *)
Definition seekarg := option (Z * whence).   (* seek_offset=None: no seek *)

Definition loc := nat.
Definition heap := list (list chunk).
Record world := { w_data : list N; w_pos : nat; w_reads : nat; w_heap : heap }.

Definition heap_get (l : loc) (h : heap) : list chunk := nth l h [].
Fixpoint heap_set (l : loc) (v : list chunk) (h : heap) : heap :=
  match h, l with
  | [], _ => []
  | _ :: r, O => v :: r
  | x :: r, S l' => x :: heap_set l' v r
  end.
(* list(iterable): a new list object, at a location nothing else refers to *)
Definition alloc (v : list chunk) (w : world) : loc * world :=
  (length (w_heap w),
   {| w_data := w_data w; w_pos := w_pos w; w_reads := w_reads w; w_heap := w_heap w ++ [v] |}).

(* stream.seek(off, whence): the new position, or what it raises.  BytesIO
   refuses a negative absolute offset (ValueError) and clamps a negative
   end-relative result to 0; a file object raises OSError (EINVAL) for both. *)
Definition seek_pos (k : skind) (len : nat) (off : Z) (wh : whence) : res nat exn :=
  match wh with
  | SeekSet =>
      if (off <? 0)%Z then Raised (match k with KBytesIO => ValueError | KFile => OSError end)
      else Ok (Z.to_nat off)
  | SeekEnd =>
      let p := (Z.of_nat len + off)%Z in
      if (p <? 0)%Z then match k with KBytesIO => Ok 0 | KFile => Raised OSError end
      else Ok (Z.to_nat p)
  end.

(* stream.read(n) at position pos *)
Definition read_at (data : list N) (pos n : nat) : chunk := firstn n (skipn pos data).

(* _iter_chunks, content.py:45-48:
       chunk = stream.read(chunk_size)
       while chunk: yield chunk; chunk = stream.read(chunk_size)
   Result: the chunks, the final position, the number of read() calls. *)
Fixpoint read_loop (fuel : nat) (data : list N) (pos n : nat) : option (list chunk * nat * nat) :=
  match fuel with
  | O => None
  | S f =>
      match read_at data pos n with
      | [] => Some ([], pos, 1)
      | c => match read_loop f data (pos + length c) n with
             | None => None
             | Some (cs, p, k) => Some (c :: cs, p, S k)
             end
      end
  end.

(* the reader closure of content_from_stream / content_from_file, run to the end *)
Definition run_reader (k : skind) (n : nat) (sk : seekarg) (w : world) : res (list chunk) exn * world :=
  let start :=
    match sk with
    | None => Ok (match k with KBytesIO => w_pos w | KFile => 0 end)
    | Some (off, wh) => seek_pos k (length (w_data w)) off wh
    end in
  match start with
  | Raised e => (Raised e, w)
  | Ok p =>
      match read_loop (length (w_data w) - p + 1) (w_data w) p n with
      | None => (Raised OutOfFuel, w)
      | Some (cs, p', r) =>
          (Ok cs, {| w_data := w_data w;
                     w_pos := match k with KBytesIO => p' | KFile => w_pos w end;
                     w_reads := w_reads w + r;
                     w_heap := w_heap w |})
      end
  end.

(* ---------------- Content ---------------- *)
Inductive source :=
| Stored (cs : list chunk)
| Live (k : skind) (n : nat) (sk : seekarg)
| InList (l : loc).

Record content := { c_type : ctype; c_src : source }.

Definition iter_src (s : source) (w : world) : res (list chunk) exn * world :=
  match s with
  | Stored cs => (Ok cs, w)
  | Live k n sk => run_reader k n sk w
  | InList l => (Ok (heap_get l (w_heap w)), w)
  end.

(* Content.iter_bytes(), fully consumed *)
Definition iter_bytes (c : content) (w : world) : res (list chunk) exn * world := iter_src (c_src c) w.

(* content_from_reader, content.py:331-348 (content_from_file/_stream build the reader) *)
Definition content_from_reader (src : source) (ct : option ctype) (buffer_now : bool) (w : world)
  : res content exn * world :=
  let ct := match ct with None => UTF8_TEXT | Some c => c end in
  if buffer_now then
    match iter_src src w with
    | (Ok cs, w') => (Ok {| c_type := ct; c_src := Stored cs |}, w')
    | (Raised e, w') => (Raised e, w')
    end
  else (Ok {| c_type := ct; c_src := src |}, w).

Definition content_from_source (k : skind) (ct : option ctype) (n : nat) (buffer_now : bool) (sk : seekarg)
  : world -> res content exn * world :=
  content_from_reader (Live k n sk) ct buffer_now.

(* testcase._copy_content, testcase.py:131-145:
       content_bytes = list(content_object.iter_bytes())      -- a NEW list object
       return Content(content_object.content_type, lambda: content_bytes) *)
Definition copy_content (c : content) (w : world) : res content exn * world :=
  match iter_bytes c w with
  | (Ok cs, w') => let (l, w'') := alloc cs w' in (Ok {| c_type := c_type c; c_src := InList l |}, w'')
  | (Raised e, w') => (Raised e, w')
  end.

(* text_content, content.py:247-256 *)
Definition text_content (s : list N) : content :=
  {| c_type := UTF8_TEXT; c_src := Stored [utf8_encode s] |}.

(* json_content, content.py:238-244; json.dumps is not modelled *)
Section Json.
  Variable J : Type.
  Variable dumps : J -> list N.
  Definition json_content (d : J) : content :=
    {| c_type := JSON; c_src := Stored [utf8_encode (dumps d)] |}.
End Json.

(* ---------------- iter_text / as_text ---------------- *)
(* codecs.lookup on the spellings the check uses: case-insensitive, '-' and ' ' as '_' *)
Definition norm_charset (s : str) : str :=
  map (fun c => if (c =? 45)%N || (c =? 32)%N then 95%N else lower1 c) s.
Definition utf8_names : list str := [sb "utf8"; sb "utf_8"; sb "u8"].
Definition latin1_names : list str := [sb "iso_8859_1"; sb "iso8859_1"; sb "latin_1"; sb "latin1"; sb "l1"].
Definition codec_of (name : str) : option codec :=
  let n := norm_charset name in
  if existsb (str_eqb n) utf8_names then Some utf8
  else if existsb (str_eqb n) latin1_names then Some latin1
  else None.

Definition declared_charset (ct : ctype) : str :=
  match lookup s_charset (ct_params ct) with Some v => v | None => sb "ISO-8859-1" end.

(* _iter_text, content.py:102-110: ONE decoder, every chunk in order, one final flush.
   None = UnicodeDecodeError.  Result: the pieces yielded. *)
Fixpoint iter_text_loop (C : codec) (s : dstate C) (chunks : list chunk) : option (list (list N)) :=
  match chunks with
  | [] => match flush C s with
          | None => None
          | Some [] => Some []
          | Some fin => Some [fin]
          end
  | c :: r =>
      match feed C s c with
      | None => None
      | Some (s', out) =>
          match iter_text_loop C s' r with
          | None => None
          | Some pieces => Some (out :: pieces)
          end
      end
  end.

(* Content.as_text(), content.py:78-85, 91-110 *)
Definition as_text (c : content) (w : world) : res (list N) exn * world :=
  if negb (str_eqb (ct_type (c_type c)) (sb "text")) then (Raised ValueError, w)
  else match codec_of (declared_charset (c_type c)) with
       | None => (Raised LookupError, w)
       | Some C =>
           match iter_bytes c w with
           | (Raised e, w') => (Raised e, w')
           | (Ok chunks, w') =>
               match iter_text_loop C (dinit C) chunks with
               | None => (Raised UnicodeDecodeError, w')
               | Some pieces => (Ok (concat pieces), w')
               end
           end
       end.

(* Content.__eq__, content.py:73-76 *)
Definition content_eq (a b : content) (w : world) : res bool exn * world :=
  if ct_eqb (c_type a) (c_type b) then
    match iter_bytes a w with
    | (Raised e, w1) => (Raised e, w1)
    | (Ok ca, w1) =>
        match iter_bytes b w1 with
        | (Raised e, w2) => (Raised e, w2)
        | (Ok cb, w2) => (Ok (list_eqb N.eqb (concat ca) (concat cb)), w2)
        end
    end
  else (Ok false, w).
