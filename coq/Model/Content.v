(* Model of testtools/content.py: _iter_chunks (34-48), Content.iter_bytes /
   iter_text / as_text / __eq__ (50-115), json_content / text_content /
   content_from_file / content_from_stream / content_from_reader (238-348), and
   testcase.py:_copy_content (128-145).  Executable definitions only.

   Mutable state is explicit: a [world] holds the current bytes of the one
   stream/file a scenario uses (a BytesIO object or a file on disk), the
   BytesIO position, a counter of read() calls, a heap of mutable Python
   list objects (location = index), and a read-size oracle: the stream may be
   an unbuffered pipe / socket / raw device / segmented reader whose read(n)
   legitimately returns FEWER than n bytes although more follow (only b"" is
   end of file); w_sizes lists how many bytes the coming read() calls deliver
   at most (one entry per call, clamped to 1..n; once the list is exhausted
   reads are full, which is all a regular file or BytesIO ever does).  A Content's get_bytes callable is
   defunctionalised: [Stored cs] is "lambda: cs" over an immutable value,
   [Live ...] is the reader closure over the stream/file, [InList l] is a
   callback that yields the CURRENT contents of the list object at location l
   (by returning that very object, a fresh list(...) of it, or a generator over
   it - for a consumer that iterates at once these are the same). *)
From Coq Require Import String.
From TT Require Import Lib.Base Model.Utf8 Model.MimeCt Gen.Ctc16.

Inductive exn := ValueError | OSError | UnicodeDecodeError | LookupError | OutOfFuel.

Definition exn_eqb (a b : exn) : bool :=
  match a, b with
  | ValueError, ValueError | OSError, OSError | UnicodeDecodeError, UnicodeDecodeError
  | LookupError, LookupError | OutOfFuel, OutOfFuel => true
  | _, _ => false
  end.

Definition chunk := list N.
Definition tres := res (list N) exn.         (* as_text(): code points, or what was raised *)

(* ---------------- sources ---------------- *)
Inductive skind := KBytesIO | KFile.         (* io.BytesIO object | path opened with open(path, "rb") per iteration *)
Inductive whence := SeekSet | SeekEnd.       (* os.SEEK_SET = 0, os.SEEK_END = 2 *)
Definition seekarg := option (Z * whence).   (* seek_offset=None: no seek *)

Definition loc := nat.
Definition heap := list (list chunk).
Record world := { w_data : list N; w_pos : nat; w_reads : nat; w_heap : heap; w_sizes : list nat }.

Definition heap_get (l : loc) (h : heap) : list chunk := nth l h [].
Fixpoint heap_set (l : loc) (v : list chunk) (h : heap) : heap :=
  match h, l with
  | [], _ => []
  | _ :: r, O => v :: r
  | x :: r, S l' => x :: heap_set l' v r
  end.
(* list(iterable): a new list object, at a location nothing else refers to *)
Definition alloc (v : list chunk) (w : world) : loc * world :=
  (length (w_heap w),
   {| w_data := w_data w; w_pos := w_pos w; w_reads := w_reads w; w_heap := w_heap w ++ [v];
      w_sizes := w_sizes w |}).

(* stream.seek(off, whence): the new position, or what it raises.  BytesIO
   refuses a negative absolute offset (ValueError) and clamps a negative
   end-relative result to 0; a file object raises OSError (EINVAL) for both. *)
Definition seek_pos (k : skind) (len : nat) (off : Z) (wh : whence) : res nat exn :=
  match wh with
  | SeekSet =>
      if (off <? 0)%Z then Raised (match k with KBytesIO => ValueError | KFile => OSError end)
      else Ok (Z.to_nat off)
  | SeekEnd =>
      let p := (Z.of_nat len + off)%Z in
      if (p <? 0)%Z then match k with KBytesIO => Ok 0 | KFile => Raised OSError end
      else Ok (Z.to_nat p)
  end.

(* stream.read(n) at position pos *)
Definition read_at (data : list N) (pos n : nat) : chunk := firstn n (skipn pos data).

(* how many bytes the next read(n) hands out at most: n from a stream that always
   fills the request, else the oracle's next entry clamped to 1..n *)
Definition next_size (n : nat) (sizes : list nat) : nat :=
  match sizes with [] => n | s :: _ => Nat.max 1 (Nat.min s n) end.

(* _iter_chunks, content.py:45-48:
       chunk = stream.read(chunk_size)
       while chunk: yield chunk; chunk = stream.read(chunk_size)
   over a stream whose reads are sized by the oracle (one entry per read() call).
   Result: the chunks, the final position, the number of read() calls. *)
Fixpoint read_loop (fuel : nat) (data : list N) (pos n : nat) (sizes : list nat) : option (list chunk * nat * nat) :=
  match fuel with
  | O => None
  | S f =>
      match read_at data pos (next_size n sizes) with
      | [] => Some ([], pos, 1)
      | c => match read_loop f data (pos + length c) n (tl sizes) with
             | None => None
             | Some (cs, p, k) => Some (c :: cs, p, S k)
             end
      end
  end.

(* the reader closure of content_from_stream / content_from_file, run to the end *)
Definition run_reader (k : skind) (n : nat) (sk : seekarg) (w : world) : res (list chunk) exn * world :=
  let start :=
    match sk with
    | None => Ok (match k with KBytesIO => w_pos w | KFile => 0 end)
    | Some (off, wh) => seek_pos k (length (w_data w)) off wh
    end in
  match start with
  | Raised e => (Raised e, w)
  | Ok p =>
      match read_loop (length (w_data w) - p + 1) (w_data w) p n (w_sizes w) with
      | None => (Raised OutOfFuel, w)
      | Some (cs, p', r) =>
          (Ok cs, {| w_data := w_data w;
                     w_pos := match k with KBytesIO => p' | KFile => w_pos w end;
                     w_reads := w_reads w + r;
                     w_heap := w_heap w;
                     w_sizes := skipn r (w_sizes w) |})
      end
  end.

(* ---------------- Content ---------------- *)
Inductive source :=
| Stored (cs : list chunk)
| Live (k : skind) (n : nat) (sk : seekarg)
| InList (l : loc).

Record content := { c_type : ctype; c_src : source }.

Definition iter_src (s : source) (w : world) : res (list chunk) exn * world :=
  match s with
  | Stored cs => (Ok cs, w)
  | Live k n sk => run_reader k n sk w
  | InList l => (Ok (heap_get l (w_heap w)), w)
  end.

(* Content.iter_bytes(), fully consumed *)
Definition iter_bytes (c : content) (w : world) : res (list chunk) exn * world := iter_src (c_src c) w.

(* content_from_reader, content.py:331-348 (content_from_file/_stream build the reader) *)
Definition content_from_reader (src : source) (ct : option ctype) (buffer_now : bool) (w : world)
  : res content exn * world :=
  let ct := match ct with None => UTF8_TEXT | Some c => c end in
  if buffer_now then
    match iter_src src w with
    | (Ok cs, w') => (Ok {| c_type := ct; c_src := Stored cs |}, w')
    | (Raised e, w') => (Raised e, w')
    end
  else (Ok {| c_type := ct; c_src := src |}, w).

Definition content_from_source (k : skind) (ct : option ctype) (n : nat) (buffer_now : bool) (sk : seekarg)
  : world -> res content exn * world :=
  content_from_reader (Live k n sk) ct buffer_now.

(* testcase._copy_content, testcase.py:131-145:
       content_bytes = list(content_object.iter_bytes())      -- a NEW list object
       return Content(content_object.content_type, lambda: content_bytes) *)
Definition copy_content (c : content) (w : world) : res content exn * world :=
  match iter_bytes c w with
  | (Ok cs, w') => let (l, w'') := alloc cs w' in (Ok {| c_type := c_type c; c_src := InList l |}, w'')
  | (Raised e, w') => (Raised e, w')
  end.

(* text_content, content.py:247-256 *)
Definition text_content (s : list N) : content :=
  {| c_type := UTF8_TEXT; c_src := Stored [utf8_encode s] |}.

(* json_content, content.py:238-244; json.dumps is not modelled *)
Section Json.
  Variable J : Type.
  Variable dumps : J -> list N.
  Definition json_content (d : J) : content :=
    {| c_type := JSON; c_src := Stored [utf8_encode (dumps d)] |}.
End Json.

(* ---------------- iter_text / as_text ---------------- *)
(* codecs.lookup on the spellings the check uses: case-insensitive, '-' and ' ' as '_' *)
Definition norm_charset (s : str) : str :=
  map (fun c => if (c =? 45)%N || (c =? 32)%N then 95%N else lower1 c) s.
Definition utf8_names : list str := [sb "utf8"; sb "utf_8"; sb "u8"].
Definition latin1_names : list str := [sb "iso_8859_1"; sb "iso8859_1"; sb "latin_1"; sb "latin1"; sb "l1"].
Definition codec_of (name : str) : option codec :=
  let n := norm_charset name in
  if existsb (str_eqb n) utf8_names then Some utf8
  else if existsb (str_eqb n) latin1_names then Some latin1
  else None.

Definition declared_charset (ct : ctype) : str :=
  match lookup s_charset (ct_params ct) with Some v => v | None => sb "ISO-8859-1" end.

(* _iter_text, content.py:102-110: ONE decoder, every chunk in order, one final flush.
   None = UnicodeDecodeError.  Result: the pieces yielded. *)
Fixpoint iter_text_loop (C : codec) (s : dstate C) (chunks : list chunk) : option (list (list N)) :=
  match chunks with
  | [] => match flush C s with
          | None => None
          | Some [] => Some []
          | Some fin => Some [fin]
          end
  | c :: r =>
      match feed C s c with
      | None => None
      | Some (s', out) =>
          match iter_text_loop C s' r with
          | None => None
          | Some pieces => Some (out :: pieces)
          end
      end
  end.

(* Content.as_text(), content.py:78-85, 91-110 *)
Definition as_text (c : content) (w : world) : res (list N) exn * world :=
  if negb (str_eqb (ct_type (c_type c)) (sb "text")) then (Raised ValueError, w)
  else match codec_of (declared_charset (c_type c)) with
       | None => (Raised LookupError, w)
       | Some C =>
           match iter_bytes c w with
           | (Raised e, w') => (Raised e, w')
           | (Ok chunks, w') =>
               match iter_text_loop C (dinit C) chunks with
               | None => (Raised UnicodeDecodeError, w')
               | Some pieces => (Ok (concat pieces), w')
               end
           end
       end.

(* Content.__eq__, content.py:73-76 *)
Definition content_eq (a b : content) (w : world) : res bool exn * world :=
  if ct_eqb (c_type a) (c_type b) then
    match iter_bytes a w with
    | (Raised e, w1) => (Raised e, w1)
    | (Ok ca, w1) =>
        match iter_bytes b w1 with
        | (Raised e, w2) => (Raised e, w2)
        | (Ok cb, w2) => (Ok (list_eqb N.eqb (concat ca) (concat cb)), w2)
        end
    end
  else (Ok false, w).

(* ---------------- several readers of ONE Content object ----------------
   Content.iter_text() returns a generator (_iter_text, content.py:102-110); a
   consumer may take a few pieces and abandon it, two consumers may advance
   their generators alternately, the same content may be read again and again.
   Each generator owns ITS decoder (created when its body starts), walks the
   chunks in order and flushes once.  One generator: *)
Record titer (C : codec) := mkIter {
  ti_dec : dstate C;                 (* the state of this reader's decoder *)
  ti_rest : list chunk;              (* the chunks it has not been given yet *)
  ti_acc : list N;                   (* the text it has yielded so far, joined *)
  ti_end : option (option exn) }.    (* None: suspended; Some None: exhausted; Some (Some e): it raised e *)
Arguments mkIter {C}. Arguments ti_dec {C}. Arguments ti_rest {C}. Arguments ti_acc {C}. Arguments ti_end {C}.

Definition ti_fresh (C : codec) (chunks : list chunk) : titer C :=
  {| ti_dec := dinit C; ti_rest := chunks; ti_acc := []; ti_end := None |}.

(* next(generator), the piece appended to what the consumer has collected *)
Definition ti_step (C : codec) (it : titer C) : titer C :=
  match ti_end it with
  | Some _ => it
  | None =>
      match ti_rest it with
      | c :: r =>
          match feed C (ti_dec it) c with
          | None => {| ti_dec := ti_dec it; ti_rest := r; ti_acc := ti_acc it; ti_end := Some (Some UnicodeDecodeError) |}
          | Some (s', out) => {| ti_dec := s'; ti_rest := r; ti_acc := ti_acc it ++ out; ti_end := None |}
          end
      | [] =>
          match flush C (ti_dec it) with
          | None => {| ti_dec := ti_dec it; ti_rest := []; ti_acc := ti_acc it; ti_end := Some (Some UnicodeDecodeError) |}
          | Some fin => {| ti_dec := ti_dec it; ti_rest := []; ti_acc := ti_acc it ++ fin; ti_end := Some None |}
          end
      end
  end.

Fixpoint ti_run (C : codec) (k : nat) (it : titer C) : titer C :=
  match k with O => it | S k' => ti_run C k' (ti_step C it) end.

(* the consumer drains the generator: one next() per remaining chunk and one for the flush *)
Definition ti_finish (C : codec) (it : titer C) : titer C := ti_run C (S (length (ti_rest it))) it.

(* what a reader that went through the whole generator holds: "".join(pieces), or the exception *)
Definition ti_result (C : codec) (it : titer C) : tres :=
  match ti_end it with Some (Some e) => Raised e | _ => Ok (ti_acc it) end.

(* a history of reads on one content: iter_text() (a new reader), next() on reader i,
   reader i drained, as_text() (a new reader drained at once) *)
Inductive hop := HNew | HNext (i : nat) | HFinish (i : nat) | HAsText.
(* what the caller sees: iter_text() returned / raised; no reader i; next() done (the piece is
   kept by reader i); the complete text reader i collected over its whole life / as_text() *)
Inductive hres := RNew (e : option exn) | RNoIter | RStepped | RRead (t : tres).

Fixpoint upd {A} (i : nat) (x : A) (l : list A) : list A :=
  match l, i with
  | [], _ => []
  | _ :: r, O => x :: r
  | y :: r, S i' => y :: upd i' x r
  end.

Section Hist.
  Variable I : Type.                       (* a reader's state *)
  Variable fresh : option I.               (* iter_text(): a new reader, or ValueError (not a text type) *)
  Variables step finish : I -> I.
  Variable result : I -> tres.
  Variable astext : tres.
  Fixpoint hist (its : list I) (ops : list hop) : list hres :=
    match ops with
    | [] => []
    | HNew :: r =>
        match fresh with
        | None => RNew (Some ValueError) :: hist its r
        | Some f => RNew None :: hist (its ++ [f]) r
        end
    | HNext i :: r =>
        match nth_error its i with
        | None => RNoIter :: hist its r
        | Some it => RStepped :: hist (upd i (step it) its) r      (* only reader i changes *)
        end
    | HFinish i :: r =>
        match nth_error its i with
        | None => RNoIter :: hist its r
        | Some it => RRead (result (finish it)) :: hist (upd i (finish it) its) r
        end
    | HAsText :: r => RRead astext :: hist its r
    end.
End Hist.

(* the history on Content(ct, lambda: chunks).  A charset outside the two modelled codecs:
   codecs.getincrementaldecoder raises LookupError in the generator body - or, for a codec
   Python knows and this model does not (BOM-detecting UTF-16/UTF-32, utf-8-sig), the case
   carries [oracle] = bytes.decode(charset) of the joined bytes and every complete read is
   ASSUMED to return it (sampled extension, see ASSUMPTIONS of the check). *)
Definition read_history (ct : ctype) (chunks : list chunk) (oracle : option tres) (ops : list hop) : list hres :=
  if negb (str_eqb (ct_type ct) (sb "text")) then
    hist unit None (fun x => x) (fun x => x) (fun _ => Raised ValueError) (Raised ValueError) [] ops
  else match codec_of (declared_charset ct) with
       | Some C =>
           hist (titer C) (Some (ti_fresh C chunks)) (ti_step C) (ti_finish C) (ti_result C)
                (ti_result C (ti_finish C (ti_fresh C chunks))) [] ops
       | None =>
           let r := match oracle with Some t => t | None => Raised LookupError end in
           hist unit (Some tt) (fun x => x) (fun x => x) (fun _ => r) r [] ops
       end.
