(* ConcurrentTestSuite.run and ConcurrentStreamTestSuite.run with their _run_test wrappers
   (testtools/testsuite.py:65-195) as small-step interleaving semantics, on top of Model/Tfr.v.
   Executable definitions only.

   Thread 0 is the thread that called run() ("main"); worker k (the k-th sub-suite yielded by
   make_tests) is thread k+1.  One step = the pending operation of one thread on a shared object
   (Thread.start, queue.put/get, Thread.join, semaphore.acquire/release, a call on the caller's
   result) followed by that thread's local work up to its next such operation.  queue.get is
   possible only when the queue is non-empty, join only when that worker has finished, acquire
   only when the semaphore is free; everything else is always possible. *)
From TT Require Import Lib.Base Model.Tfr.

(* ---------- what travels through the queue, what happens on the shared objects ---------- *)
(* the timestamp of a stream event as it travels: none at all | assigned by TimestampingStreamResult
   (datetime.now(), value not compared) | the one the worker supplied *)
Inductive tstamp := TNo | TNow | TOwn (n : nat).
(* how a stream-native worker spells the timestamp argument of result.status(): keyword left out |
   timestamp=None passed explicitly (replaying a recorded event dict as keyword arguments) | its own datetime *)
Inductive tsarg := TsOmit | TsNone | TsAt (n : nat).
(* TimestampingStreamResult.status (real.py): pop the keyword, stamp when it is missing or None *)
Definition stamp (a : tsarg) : tstamp := match a with TsAt n => TOwn n | _ => TNow end.

(* the route code of a stream event as it travels: (the route code make_tests assigned to the worker's
   sub-suite, the event's own route code); StreamToQueue.route_code joins the two with "/" where both exist.
   Route codes of different sub-suites may be EQUAL (for example all None): they do not identify a worker. *)
Definition rcode := (option nat * option nat)%type.

Inductive qitem :=
| QToken (w : nat)                                   (* classic: the finished sub-suite *)
| QStart (w : nat)                                   (* stream: startTestRun of worker w's StreamToQueue - main ignores it and the
                                                        statement says nothing about who opens a worker's result when:
                                                        not part of the model's runs, not observed *)
| QStop (w : nat)                                    (* stream: stopTestRun of worker w's StreamToQueue *)
| QStatus (w : nat) (id st : nat) (own : rcode) (ts : tstamp).
                                 (* stream: a status event put by worker w (w = WHICH StreamToQueue object, not a route code):
                                    test id, status, route code, timestamp *)

Inductive cev :=
| CG (e : gev)                   (* classic: semaphore / caller's-result events, as in Tfr.v *)
| CSpawn (w : nat)               (* main: Thread.start() of worker w *)
| CPut (q : qitem)
| CGet (q : qitem)
| CGetIntr                       (* main: an interrupt arrives in queue.get() *)
| CJoin (w : nat)
| CStatus (w : nat) (id st : nat) (own : rcode) (ts : tstamp) (raised : bool).
                                 (* stream: main passes an event dequeued from worker w to result.status(route_code, timestamp) *)

Definition br_id := 999.           (* the test id 'broken-runner' / "broken-runner-'<route>'" *)
Definition st_inprogress := 0.
Definition st_fail := 2.

(* ---------- the harness scheduler, for any step function ---------- *)
Section Sched.
  Context {C : Type}.
  Variable stepf : C -> tid -> option C.
  Variable nthr : C -> nat.

  Fixpoint gpick_from (c : C) (cands : list tid) : option C :=
    match cands with
    | [] => None
    | t :: r => match stepf c t with Some c' => Some c' | None => gpick_from c r end
    end.
  Definition gsched_step (c : C) (t : tid) : C :=
    match gpick_from c (rot (nthr c) t) with Some c' => c' | None => c end.
  Fixpoint gdrain (fuel : nat) (c : C) : C :=
    match fuel with
    | 0 => c
    | S k => match gpick_from c (seq 0 (nthr c)) with Some c' => gdrain k c' | None => c end
    end.
  Definition gstep' (c : C) (t : tid) : C := match stepf c t with Some c' => c' | None => c end.
End Sched.

Definition remove_nat (x : nat) (l : list nat) : list nat := filter (fun y => negb (y =? x)) l.

(* ====================================================================================== *)
(* ConcurrentTestSuite                                                                      *)
(* ====================================================================================== *)
(* what ErrorHolder('broken-runner', error=...).run(process_result) says to the forwarder *)
Definition br_script : list rcall :=
  [RTags [] []; RStartTest br_id; ROutcome KError br_id; RStopTest br_id; RTags [] []].

Record cinput := {
  ci_suites : list (list rcall * list nat);  (* per sub-suite: the calls its run(result) makes (RRaise = run() raises
                                                there), and which of that worker's calls on the caller's result raise *)
  ci_mt_raise : option nat;                  (* make_tests raises after yielding this many sub-suites *)
  ci_get_intr : option nat;                  (* the n-th queue.get() of main is interrupted *)
  ci_main_faults : list nat;                 (* which of main's own calls on the caller's result (stop) raise *)
  ci_base : bool;                            (* what is raised is not an Exception (KeyboardInterrupt-like) *)
  ci_sched : list nat }.

Record cworker := { cw_th : thread; cw_put : bool }.
Definition cw_done (w : cworker) : bool := finished (cw_th w) && cw_put w.

Inductive cmain :=
| CMSpawn (k : nat)                 (* about to start worker k *)
| CMGet                             (* in queue.get() *)
| CMJoin (w : nat)                  (* in threads[finished_test][0].join() *)
| CMStopAcq (ws : list nat)         (* except clause: process_result.stop() of the first of ws, before acquire *)
| CMStopCall (ws : list nat)        (*   ... before result.stop() *)
| CMStopRel (ws : list nat) (raised : bool)   (*   ... before release *)
| CMDone.                           (* run() has returned or raised *)

Record cconf := {
  k_sem : option tid;
  k_log : list (tid * cev);
  k_queue : list nat;               (* worker numbers *)
  k_main : cmain;
  k_unreaped : list nat;            (* keys of the `threads` dict, in insertion order *)
  k_workers : list cworker;         (* started workers, in order *)
  k_gets : nat;                     (* queue.get() calls so far *)
  k_mcalls : nat;                   (* main's calls on the caller's result so far *)
  k_raised : bool;                  (* run() ends by raising *)
  k_stops : list nat;               (* workers whose process_result.stop() has been called *)
  k_live : list bool }.             (* recorded when run() ends: which workers are still alive *)

Definition worker_fb (base : bool) : option (list (list rcall)) :=
  if base then Some [] else Some [br_script].

Definition cset_main (c : cconf) (m : cmain) : cconf :=
  {| k_sem := k_sem c; k_log := k_log c; k_queue := k_queue c; k_main := m; k_unreaped := k_unreaped c;
     k_workers := k_workers c; k_gets := k_gets c; k_mcalls := k_mcalls c; k_raised := k_raised c;
     k_stops := k_stops c; k_live := k_live c |}.

(* run() ends: remember who is alive *)
Definition cfinish (c : cconf) (raised : bool) : cconf :=
  {| k_sem := k_sem c; k_log := k_log c; k_queue := k_queue c; k_main := CMDone; k_unreaped := k_unreaped c;
     k_workers := k_workers c; k_gets := k_gets c; k_mcalls := k_mcalls c; k_raised := raised;
     k_stops := k_stops c; k_live := map (fun w => negb (cw_done w)) (k_workers c) |}.

(* the except clause: stop every worker still in the dict, then re-raise *)
Definition cabort (c : cconf) : cconf :=
  match k_unreaped c with
  | [] => cfinish c true
  | ws => cset_main c (CMStopAcq ws)
  end.

(* after starting worker k-1: the next sub-suite, or make_tests raises, or the reaping loop *)
Definition cafter_spawn (i : cinput) (c : cconf) (k : nat) : cconf :=
  if option_eqb Nat.eqb (ci_mt_raise i) (Some k) then cabort c
  else if k <? length (ci_suites i) then cset_main c (CMSpawn k)
  else match k_unreaped c with [] => cfinish c false | _ => cset_main c CMGet end.

Definition clog (c : cconf) (t : tid) (e : cev) : list (tid * cev) := k_log c ++ [(t, e)].

Definition cstep_main (i : cinput) (c : cconf) : option cconf :=
  match k_main c with
  | CMSpawn k =>
      match nth_error (ci_suites i) k with
      | None => None
      | Some (s, fl) =>
          let w := {| cw_th := init_thread s fl (worker_fb (ci_base i)); cw_put := false |} in
          let c' := {| k_sem := k_sem c; k_log := clog c 0 (CSpawn k); k_queue := k_queue c; k_main := k_main c;
                       k_unreaped := k_unreaped c ++ [k]; k_workers := k_workers c ++ [w]; k_gets := k_gets c;
                       k_mcalls := k_mcalls c; k_raised := k_raised c; k_stops := k_stops c; k_live := k_live c |} in
          Some (cafter_spawn i c' (S k))
      end
  | CMGet =>
      if option_eqb Nat.eqb (ci_get_intr i) (Some (k_gets c))
      then let c' := {| k_sem := k_sem c; k_log := clog c 0 CGetIntr; k_queue := k_queue c; k_main := k_main c;
                        k_unreaped := k_unreaped c; k_workers := k_workers c; k_gets := S (k_gets c);
                        k_mcalls := k_mcalls c; k_raised := k_raised c; k_stops := k_stops c; k_live := k_live c |} in
           Some (cabort c')
      else match k_queue c with
           | [] => None
           | w :: q =>
               Some {| k_sem := k_sem c; k_log := clog c 0 (CGet (QToken w)); k_queue := q; k_main := CMJoin w;
                       k_unreaped := k_unreaped c; k_workers := k_workers c; k_gets := S (k_gets c);
                       k_mcalls := k_mcalls c; k_raised := k_raised c; k_stops := k_stops c; k_live := k_live c |}
           end
  | CMJoin w =>
      match nth_error (k_workers c) w with
      | None => None
      | Some wk =>
          if cw_done wk
          then let c' := {| k_sem := k_sem c; k_log := clog c 0 (CJoin w); k_queue := k_queue c; k_main := k_main c;
                            k_unreaped := remove_nat w (k_unreaped c); k_workers := k_workers c; k_gets := k_gets c;
                            k_mcalls := k_mcalls c; k_raised := k_raised c; k_stops := k_stops c; k_live := k_live c |} in
               Some (match k_unreaped c' with [] => cfinish c' false | _ => cset_main c' CMGet end)
          else None
      end
  | CMStopAcq ws =>
      match k_sem c, ws with
      | None, w :: _ =>
          Some {| k_sem := Some 0; k_log := clog c 0 (CG EAcq); k_queue := k_queue c; k_main := CMStopCall ws;
                  k_unreaped := k_unreaped c; k_workers := k_workers c; k_gets := k_gets c;
                  k_mcalls := k_mcalls c; k_raised := k_raised c; k_stops := k_stops c ++ [w]; k_live := k_live c |}
      | _, _ => None
      end
  | CMStopCall ws =>
      let b := memb (k_mcalls c) (ci_main_faults i) in
      Some {| k_sem := k_sem c; k_log := clog c 0 (CG (ECall (TGuard GStop) b)); k_queue := k_queue c;
              k_main := CMStopRel ws b; k_unreaped := k_unreaped c; k_workers := k_workers c; k_gets := k_gets c;
              k_mcalls := S (k_mcalls c); k_raised := k_raised c; k_stops := k_stops c; k_live := k_live c |}
  | CMStopRel ws b =>
      let c' := {| k_sem := None; k_log := clog c 0 (CG ERel); k_queue := k_queue c; k_main := k_main c;
                   k_unreaped := k_unreaped c; k_workers := k_workers c; k_gets := k_gets c;
                   k_mcalls := k_mcalls c; k_raised := k_raised c; k_stops := k_stops c; k_live := k_live c |} in
      Some (if b then cfinish c' true
            else match ws with
                 | _ :: (_ :: _) as rest => cset_main c' (CMStopAcq rest)
                 | _ => cfinish c' true
                 end)
  | CMDone => None
  end.

Definition cstep_worker (c : cconf) (w : nat) : option cconf :=
  match nth_error (k_workers c) w with
  | None => None
  | Some wk =>
      match tstep (cw_th wk) with
      | Some (e, th') =>
          match enabled (k_sem c) (S w) e with
          | None => None
          | Some s' =>
              Some {| k_sem := s'; k_log := clog c (S w) (CG e); k_queue := k_queue c; k_main := k_main c;
                      k_unreaped := k_unreaped c; k_workers := upd (k_workers c) w {| cw_th := th'; cw_put := cw_put wk |};
                      k_gets := k_gets c; k_mcalls := k_mcalls c; k_raised := k_raised c; k_stops := k_stops c;
                      k_live := k_live c |}
          end
      | None =>
          if finished (cw_th wk) && negb (cw_put wk)
          then Some {| k_sem := k_sem c; k_log := clog c (S w) (CPut (QToken w)); k_queue := k_queue c ++ [w];
                       k_main := k_main c; k_unreaped := k_unreaped c;
                       k_workers := upd (k_workers c) w {| cw_th := cw_th wk; cw_put := true |};
                       k_gets := k_gets c; k_mcalls := k_mcalls c; k_raised := k_raised c; k_stops := k_stops c;
                       k_live := k_live c |}
          else None
      end
  end.

Definition cstep (i : cinput) (c : cconf) (t : tid) : option cconf :=
  match t with 0 => cstep_main i c | S w => cstep_worker c w end.

(* main runs from the call of run() to its first operation on a shared object *)
Definition cinit (i : cinput) : cconf :=
  let c0 := {| k_sem := None; k_log := []; k_queue := []; k_main := CMDone; k_unreaped := []; k_workers := [];
               k_gets := 0; k_mcalls := 0; k_raised := false; k_stops := []; k_live := [] |} in
  cafter_spawn i c0 0.

Definition cnthr (c : cconf) : nat := S (length (k_workers c)).

(* an upper bound on the number of steps still possible *)
Definition cfuel (i : cinput) : nat :=
  7 * S (length (ci_suites i))
  + fold_right (fun sf a => call_bound * (S (length (fst sf)) + length br_script) + 2 + a) 0 (ci_suites i).

Definition crun (i : cinput) : cconf :=
  let c := fold_left (gsched_step (cstep i) cnthr) (ci_sched i) (cinit i) in
  gdrain (cstep i) cnthr (cfuel i) c.

Definition cmain_done (c : cconf) : bool := match k_main c with CMDone => true | _ => false end.
Definition call_done (c : cconf) : bool := cmain_done c && forallb cw_done (k_workers c).

(* ====================================================================================== *)
(* ConcurrentStreamTestSuite                                                                *)
(* ====================================================================================== *)
Inductive sitem := SEv (id st : nat) (own : option nat) (a : tsarg) | SRaise.

Record sinput := {
  si_suites : list (list sitem);   (* per sub-suite: the status events its run(result) emits (SRaise = run() raises there) *)
  si_routes : list (option nat);   (* per sub-suite: the route code make_tests yields with it (None, or a code; codes may repeat) *)
  si_mt_raise : option nat;
  si_get_intr : option nat;
  si_main_faults : list nat;       (* which of main's result.status calls raise *)
  si_base : bool;
  si_sched : list nat }.

(* everything worker w puts on the queue that main acts on: its events up to a raise, the broken-runner
   test if what was raised is an Exception, stopTestRun *)
Definition sroute (i : sinput) (w : nat) : option nat := nth w (si_routes i) None.

(* StreamToQueue.route_code (real.py): the event's own route code under the sub-suite's, joined with "/" where
   both exist; either may be None (the pair says which). *)
Fixpoint emits (rt : option nat) (w : nat) (base : bool) (s : list sitem) : list qitem :=
  match s with
  | [] => []
  | SEv id st own a :: r => QStatus w id st (rt, own) (stamp a) :: emits rt w base r
  | SRaise :: _ => if base then [] else [QStatus w br_id st_inprogress (rt, None) TNow; QStatus w br_id st_fail (rt, None) TNow]
  end.
Definition worker_puts (rt : option nat) (w : nat) (base : bool) (s : list sitem) : list qitem :=
  emits rt w base s ++ [QStop w].

Inductive smain :=
| SMSpawn (k : nat) | SMGet | SMStatus (q : qitem) | SMJoin (w : nat) | SMDone.

Record sconf := {
  s_log : list (tid * cev);
  s_queue : list qitem;
  s_main : smain;
  s_unreaped : list nat;
  s_workers : list (list qitem);    (* per started worker: what it has still to put *)
  s_gets : nat;
  s_mcalls : nat;
  s_raised : bool;
  s_stops : list nat;
  s_live : list bool }.

Definition sset_main (c : sconf) (m : smain) : sconf :=
  {| s_log := s_log c; s_queue := s_queue c; s_main := m; s_unreaped := s_unreaped c; s_workers := s_workers c;
     s_gets := s_gets c; s_mcalls := s_mcalls c; s_raised := s_raised c; s_stops := s_stops c; s_live := s_live c |}.

Definition sw_done (todo : list qitem) : bool := match todo with [] => true | _ => false end.

Definition sfinish (c : sconf) (raised : bool) (stops : list nat) : sconf :=
  {| s_log := s_log c; s_queue := s_queue c; s_main := SMDone; s_unreaped := s_unreaped c; s_workers := s_workers c;
     s_gets := s_gets c; s_mcalls := s_mcalls c; s_raised := raised; s_stops := stops;
     s_live := map (fun w => negb (sw_done w)) (s_workers c) |}.

(* the except clause sets shouldStop on every process_result still in the dict (no shared operation) *)
Definition sabort (c : sconf) : sconf := sfinish c true (s_unreaped c).

Definition safter_spawn (i : sinput) (c : sconf) (k : nat) : sconf :=
  if option_eqb Nat.eqb (si_mt_raise i) (Some k) then sabort c
  else if k <? length (si_suites i) then sset_main c (SMSpawn k)
  else match s_unreaped c with [] => sfinish c false [] | _ => sset_main c SMGet end.

Definition slog (c : sconf) (t : tid) (e : cev) : list (tid * cev) := s_log c ++ [(t, e)].

Definition sstep_main (i : sinput) (c : sconf) : option sconf :=
  match s_main c with
  | SMSpawn k =>
      match nth_error (si_suites i) k with
      | None => None
      | Some s =>
          let c' := {| s_log := slog c 0 (CSpawn k); s_queue := s_queue c; s_main := s_main c;
                       s_unreaped := s_unreaped c ++ [k]; s_workers := s_workers c ++ [worker_puts (sroute i k) k (si_base i) s];
                       s_gets := s_gets c; s_mcalls := s_mcalls c; s_raised := s_raised c; s_stops := s_stops c;
                       s_live := s_live c |} in
          Some (safter_spawn i c' (S k))
      end
  | SMGet =>
      if option_eqb Nat.eqb (si_get_intr i) (Some (s_gets c))
      then let c' := {| s_log := slog c 0 CGetIntr; s_queue := s_queue c; s_main := s_main c;
                        s_unreaped := s_unreaped c; s_workers := s_workers c; s_gets := S (s_gets c);
                        s_mcalls := s_mcalls c; s_raised := s_raised c; s_stops := s_stops c; s_live := s_live c |} in
           Some (sabort c')
      else match s_queue c with
           | [] => None
           | q :: rest =>
               Some {| s_log := slog c 0 (CGet q); s_queue := rest;
                       s_main := match q with
                                 | QStatus _ _ _ _ _ => SMStatus q
                                 | QStop w => SMJoin w
                                 | _ => SMGet
                                 end;
                       s_unreaped := match q with QStop w => remove_nat w (s_unreaped c) | _ => s_unreaped c end;
                       s_workers := s_workers c; s_gets := S (s_gets c);
                       s_mcalls := s_mcalls c; s_raised := s_raised c; s_stops := s_stops c; s_live := s_live c |}
           end
  | SMStatus q =>
      match q with
      | QStatus w id st own ts =>
          let b := memb (s_mcalls c) (si_main_faults i) in
          let c' := {| s_log := slog c 0 (CStatus w id st own ts b); s_queue := s_queue c; s_main := SMGet;
                       s_unreaped := s_unreaped c; s_workers := s_workers c; s_gets := s_gets c;
                       s_mcalls := S (s_mcalls c); s_raised := s_raised c; s_stops := s_stops c; s_live := s_live c |} in
          Some (if b then sabort c' else c')
      | _ => None
      end
  | SMJoin w =>
      match nth_error (s_workers c) w with
      | None => None
      | Some todo =>
          if sw_done todo
          then let c' := {| s_log := slog c 0 (CJoin w); s_queue := s_queue c; s_main := s_main c;
                            s_unreaped := s_unreaped c; s_workers := s_workers c; s_gets := s_gets c;
                            s_mcalls := s_mcalls c; s_raised := s_raised c; s_stops := s_stops c; s_live := s_live c |} in
               Some (match s_unreaped c' with [] => sfinish c' false [] | _ => sset_main c' SMGet end)
          else None
      end
  | SMDone => None
  end.

Definition sstep_worker (c : sconf) (w : nat) : option sconf :=
  match nth_error (s_workers c) w with
  | Some (q :: todo) =>
      Some {| s_log := slog c (S w) (CPut q); s_queue := s_queue c ++ [q]; s_main := s_main c;
              s_unreaped := s_unreaped c; s_workers := upd (s_workers c) w todo; s_gets := s_gets c;
              s_mcalls := s_mcalls c; s_raised := s_raised c; s_stops := s_stops c; s_live := s_live c |}
  | _ => None
  end.

Definition sstep (i : sinput) (c : sconf) (t : tid) : option sconf :=
  match t with 0 => sstep_main i c | S w => sstep_worker c w end.

Definition sinit (i : sinput) : sconf :=
  let c0 := {| s_log := []; s_queue := []; s_main := SMDone; s_unreaped := []; s_workers := [];
               s_gets := 0; s_mcalls := 0; s_raised := false; s_stops := []; s_live := [] |} in
  safter_spawn i c0 0.

Definition snthr (c : sconf) : nat := S (length (s_workers c)).

(* an upper bound on the number of steps still possible: a spawn, and per item a worker will put at
   most four steps (put, get, status or join) *)
Definition sweight (s : list sitem) : nat := 1 + 4 * (length s + 4).
Definition sfuel (i : sinput) : nat := 2 + fold_right (fun s a => sweight s + a) 0 (si_suites i).

Definition srun (i : sinput) : sconf :=
  let c := fold_left (gsched_step (sstep i) snthr) (si_sched i) (sinit i) in
  gdrain (sstep i) snthr (sfuel i) c.

Definition smain_done (c : sconf) : bool := match s_main c with SMDone => true | _ => false end.
Definition sall_done (c : sconf) : bool := smain_done c && forallb sw_done (s_workers c).
