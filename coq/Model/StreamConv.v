(* Model of ExtendedToStreamDecorator (testtools/testresult/real.py): startTestRun /
   stopTestRun, startTest (auto startTestRun, 'inprogress'), stopTest, tags, time/_now,
   add* -> _convert with the one-chunk look-ahead loop, the reason file and the final
   status carrying current_tags; and of the pipeline
       ExtendedToStreamDecorator -> (tap) -> StreamToExtendedDecorator -> extended result
   that C09 observes.  The receiving half is Model/StreamRec.v instantiated with mime
   strings and Mime.parse.  Executable definitions only.

   Test ids, detail names, tags and supplied times are small numbers; time 0 stands for
   "datetime.now()" (a wall-clock value, never compared).  Name 0 is the detail name
   'reason', name 1 is 'traceback' (an exc_info argument reaches the model as the
   details dict {traceback: TracebackContent}, which is what _convert makes of it). *)
From Coq Require Import String.
From TT Require Import Lib.Base Lib.Bytestr Gen.Streamtabs Model.Mime Model.StreamRec.
Open Scope list_scope.

(* ---------- the TestResult calls ---------- *)
Record detail := Detail { d_name : nat; d_ct : ctype; d_chunks : list string }.   (* name -> Content(ct, iter_bytes) *)

Inductive op :=
| OStartRun | OStopRun
| OTime (t : nat)
| OTags (new gone : list nat)
| OStartTest (i : nat)
| OStopTest (i : nat)
| OOutcome (o : outcome) (i : nat) (details : option (list detail)) (reason : option string).

Definition reason_name : nat := 0.
Definition reason_mime : string := "text/plain; charset=utf8".
Definition wall : nat := 0.

(* ---------- tag sets as strictly increasing lists; TagContext as a stack, current context first ---------- *)
Fixpoint tinsert (x : nat) (s : list nat) : list nat :=
  match s with
  | [] => [x]
  | y :: r => if Nat.ltb x y then x :: s else if Nat.eqb x y then s else y :: tinsert x r
  end.
Definition tunion (s add : list nat) : list nat := fold_left (fun acc x => tinsert x acc) add s.
Definition tdiff (s gone : list nat) : list nat := filter (fun x => negb (existsb (Nat.eqb x) gone)) s.
(* TagContext.change_tags *)
Definition change_tags (s new gone : list nat) : list nat := tdiff (tunion s new) gone.

Record e2s := E2S { started : bool; tagstack : list (list nat); now : option nat }.
Definition e2s0 : e2s := E2S false [[]] None.                                (* __init__: _started = False, __now = None, _tags = TagContext() *)
Definition current_tags (s : e2s) : list nat := match tagstack s with c :: _ => c | [] => [] end.
Definition now_ts (s : e2s) : option nat := Some (match now s with Some t => t | None => wall end).   (* _now() *)

(* ---------- what reaches the decorated StreamResult ---------- *)
Inductive mev := MStartRun | MStopRun | MStatus (e : event string).

Definition file_ev (i name : nat) (b : string) (eof : bool) (mime : string) (ts : option nat) : mev :=
  MStatus (Ev (Some i) None None None (Some name) (Some b) eof (Some mime) ts).
Definition status_ev (i : nat) (st : status) (tags : option (list nat)) (ts : option nat) : mev :=
  MStatus (Ev (Some i) None (Some st) tags None None false None ts).

(* for next_bytes in content.iter_bytes(): if file_bytes is not None: status(file_bytes, eof=False); file_bytes = next_bytes *)
Fixpoint chunk_loop (emit : string -> bool -> mev) (pending : option string) (cs : list string) (out : list mev)
  : option string * list mev :=
  match cs with
  | [] => (pending, out)
  | c :: r => chunk_loop emit (Some c) r (match pending with Some p => out ++ [emit p false] | None => out end)
  end.
(* ... if file_bytes is None: file_bytes = b""; status(file_bytes, eof=True) *)
Definition convert_detail (i : nat) (ts : option nat) (d : detail) : list mev :=
  let emit := fun b eof => file_ev i (d_name d) b eof (render (d_ct d)) ts in
  let (pending, out) := chunk_loop emit None (d_chunks d) [] in
  out ++ [emit (match pending with Some p => p | None => ""%string end) true].

(* the final status word of each add* method, read off the live table *)
Definition word_of (o : outcome) : status :=
  match slookup (outcome_name o) e2s_status_word with
  | Some w => match status_of_name w with Some s => s | None => Unknown end
  | None => Unknown
  end.

(* startTestRun: CopyStreamResult forwards, then tags / __now / _started are reset *)
Definition start_run (s : e2s) : e2s * list mev := (E2S true [[]] None, [MStartRun]).
(* _ensure_started: if not self._started: now = self.__now; tags = self._tags; self.startTestRun();
   self.__now = now; self._tags = tags - a time() and the tags supplied before the run starts itself
   survive the implicit start *)
Definition ensure_started (s : e2s) : e2s * list mev :=
  if started s then (s, [])
  else let (s1, out) := start_run s in (E2S (started s1) (tagstack s) (now s), out).

(* _convert *)
Definition convert (s : e2s) (o : outcome) (i : nat) (details : option (list detail)) (reason : option string)
  : list mev :=
  let ts := now_ts s in
  (match details with Some ds => flat_map (convert_detail i ts) ds | None => [] end)
  ++ (match reason with Some r => [file_ev i reason_name r true reason_mime ts] | None => [] end)
  ++ [status_ev i (word_of o) (Some (current_tags s)) ts].

Definition e2s_step (s : e2s) (o : op) : e2s * list mev :=
  match o with
  | OStartRun => start_run s
  | OStopRun => (s, [MStopRun])
  | OTime t => (E2S (started s) (tagstack s) (Some t), [])
  | OTags new gone =>
      match tagstack s with
      | c :: r => (E2S (started s) (change_tags c new gone :: r) (now s), [])
      | [] => (s, [])                                  (* unreachable: there is a TagContext from __init__ on *)
      end
  | OStartTest i =>
      let (s1, out) := ensure_started s in
      (E2S (started s1) (current_tags s1 :: tagstack s1) (now s1),      (* TagContext(self._tags) *)
       out ++ [status_ev i Inprogress None (now_ts s1)])
  | OStopTest _ =>
      match tagstack s with
      | _ :: (p :: r) => (E2S (started s) (p :: r) (now s), [])         (* parent is not None *)
      | _ => (s, [])
      end
  | OOutcome k i details reason =>
      let (s1, out) := ensure_started s in (s1, out ++ convert s1 k i details reason)
  end.

Fixpoint e2s_run (s : e2s) (h : list op) : list mev :=
  match h with
  | [] => []
  | o :: r => snd (e2s_step s o) ++ e2s_run (fst (e2s_step s o)) r
  end.

(* ---------- StreamToExtendedDecorator(extended result) fed with those events ---------- *)
Definition crcd := rcd ctype.
Definition clog := logev ctype.

Definition s2e_step (tbl : list (key * crcd)) (m : mev) : list (key * crcd) * list clog :=
  match m with
  | MStartRun => ([], [LStartRun])                                       (* decorated.startTestRun(); hook: _inprogress = {} *)
  | MStopRun => ([], flat_map replay (flush tbl) ++ [LStopRun])         (* hook.stopTestRun(); decorated.stopTestRun() *)
  | MStatus e =>
      if not_exists e then (fst (step parse_opt tbl e), flat_map replay (snd (step parse_opt tbl e)))
      else (tbl, [])
  end.
Fixpoint s2e_run (tbl : list (key * crcd)) (ms : list mev) : list clog :=
  match ms with
  | [] => []
  | m :: r => snd (s2e_step tbl m) ++ s2e_run (fst (s2e_step tbl m)) r
  end.

(* the two observations of C09 for a history *)
Definition mid_stream (h : list op) : list mev := e2s_run e2s0 h.
Definition final_log (h : list op) : list clog := s2e_run [] (mid_stream h).
