(* Model of the verdict / failfast / stop machinery of testtools/testresult/real.py:
   TestResult (82-222), TextTestResult.stopTestRun (1176-1247), MultiTestResult (1087-1173),
   ThreadsafeForwardingResult (1296-1402), ExtendedToOriginalDecorator (1448-1632),
   TestResultDecorator / Tagger (1970-2054), ExtendedToStreamDecorator + StreamFailFast + StreamSummary
   (467-493, 986-1067, 1635-1792), TestControl (1070-1084), and run.py's exit status; plus
   ExtendedToOriginalDecorator over a foreign result (unittest.TestResult, the 2.6 / 2.7 / extended / Twisted
   doubles of testtools.testresult.doubles, any object with that interface) described by a capability record.
   Executable definitions only. *)
From Coq Require Import String.
From TT Require Import Lib.Base Gen.Resulttabs.

(* the six outcome methods, in the order of Gen.Resulttabs.e2s_status_words *)
Inductive kind := KSuccess | KError | KFailure | KSkip | KXfail | KUxsuccess.
Definition kind_index (k : kind) : nat :=
  match k with KSuccess => 0 | KError => 1 | KFailure => 2 | KSkip => 3 | KXfail => 4 | KUxsuccess => 5 end.
(* the outcomes whose methods end in  if self.failfast: self.stop()  (TestResult, ExtendedToOriginalDecorator) *)
Definition bad (k : kind) : bool := match k with KError | KFailure | KUxsuccess => true | _ => false end.

Definition tid := nat.

(* Calls.  Outcome k d t: add<k>(t, ...) - d = true: called with a details dict (details=...), d = false:
   called the original way (exc_info / reason / nothing).  Block k d t is what a ThreadsafeForwardingResult
   delivers for one outcome: startTest(t); add<k>(t, ...); stopTest(t), under its semaphore.  StopAt p: stop()
   called on the object at path p of the stack (child indices; [] is the outermost object). *)
Inductive op :=
| StartRun | StartTest (t : tid) | Outcome (k : kind) (d : bool) (t : tid) | StopTest (t : tid) | StopRun
| Block (k : kind) (d : bool) (t : tid)
| StopAt (p : list nat).

(* ---------- TestResult / TextTestResult ---------- *)
(* what TextTestResult.stopTestRun writes: "Ran N test(s)", OK | FAILED (failures=n), one section per problem
   (label 0 ERROR, 1 FAIL, 2 UNEXPECTED SUCCESS; the test's id) *)
Record summary := { s_ran : nat; s_failed : option nat; s_sections : list (nat * tid) }.

Record tr := {
  errors : list tid; failures : list tid; uxs : list tid; tests_run : nat;
  tr_stopped : bool;          (* shouldStop *)
  tr_ff : bool;               (* failfast *)
  tr_text : bool;             (* is a TextTestResult *)
  tr_out : list summary       (* summaries written so far *)
}.
Definition tr_new (ff txt : bool) : tr :=
  {| errors := []; failures := []; uxs := []; tests_run := 0; tr_stopped := false; tr_ff := ff;
     tr_text := txt; tr_out := [] |}.
Definition tr_ok (r : tr) : bool :=                       (* wasSuccessful *)
  match errors r, failures r, uxs r with [], [], [] => true | _, _, _ => false end.
Definition tr_stop (r : tr) : tr :=
  {| errors := errors r; failures := failures r; uxs := uxs r; tests_run := tests_run r; tr_stopped := true;
     tr_ff := tr_ff r; tr_text := tr_text r; tr_out := tr_out r |}.
Definition tr_setff (b : bool) (r : tr) : tr :=
  {| errors := errors r; failures := failures r; uxs := uxs r; tests_run := tests_run r;
     tr_stopped := tr_stopped r; tr_ff := b; tr_text := tr_text r; tr_out := tr_out r |}.
Definition tr_summary (r : tr) : summary :=
  {| s_ran := tests_run r;
     s_failed := if tr_ok r then None else Some (length (failures r) + length (errors r) + length (uxs r));
     s_sections := map (pair 0) (errors r) ++ map (pair 1) (failures r) ++ map (pair 2) (uxs r) |}.
Definition tr_outcome (r : tr) (k : kind) (t : tid) : tr :=
  let r' := {| errors := match k with KError => errors r ++ [t] | _ => errors r end;
               failures := match k with KFailure => failures r ++ [t] | _ => failures r end;
               uxs := match k with KUxsuccess => uxs r ++ [t] | _ => uxs r end;
               tests_run := tests_run r; tr_stopped := tr_stopped r; tr_ff := tr_ff r;
               tr_text := tr_text r; tr_out := tr_out r |} in
  if bad k && tr_ff r then tr_stop r' else r'.
Definition tr_start_test (r : tr) : tr :=
  {| errors := errors r; failures := failures r; uxs := uxs r; tests_run := S (tests_run r);
     tr_stopped := tr_stopped r; tr_ff := tr_ff r; tr_text := tr_text r; tr_out := tr_out r |}.
Definition tr_step (r : tr) (o : op) : tr :=
  match o with
  | StartRun => {| errors := []; failures := []; uxs := []; tests_run := 0; tr_stopped := false;
                   tr_ff := tr_ff r; tr_text := tr_text r; tr_out := tr_out r |}
  | StartTest _ => tr_start_test r
  | Outcome k _ t => tr_outcome r k t          (* details or exc_info: the same lists, the same failfast *)
  | Block k _ t => tr_outcome (tr_start_test r) k t
  | StopTest _ | StopAt _ => r
  | StopRun => if tr_text r then
                 {| errors := errors r; failures := failures r; uxs := uxs r; tests_run := tests_run r;
                    tr_stopped := tr_stopped r; tr_ff := tr_ff r; tr_text := true;
                    tr_out := tr_out r ++ [tr_summary r] |}
               else r
  end.

(* ---------- ExtendedToStreamDecorator over a stream sink (StreamSummary + StreamFailFast + TestControl) ---------- *)
Definition status_of (k : kind) : string := nth (kind_index k) e2s_status_words ""%string.
Definition in_words (s : string) (l : list string) : bool := existsb (String.eqb s) l.

Record e2s := {
  e_errs : nat;               (* len(self.errors) *)
  e_open : list tid;          (* keys of _inprogress *)
  e_stopped : bool;           (* TestControl.shouldStop *)
  e_ff : bool                 (* len(self.targets) == 2 *)
}.
Definition e2s_new : e2s := {| e_errs := 0; e_open := []; e_stopped := false; e_ff := false |}.
Definition e2s_ok (e : e2s) : bool := Nat.eqb (e_errs e) 0.     (* uxsuccess does not count: see DESIGN C04 *)
Definition e2s_stop (e : e2s) : e2s :=
  {| e_errs := e_errs e; e_open := e_open e; e_stopped := true; e_ff := e_ff e |}.
Definition e2s_setff (b : bool) (e : e2s) : e2s :=
  {| e_errs := e_errs e; e_open := e_open e; e_stopped := e_stopped e; e_ff := b |}.
Definition tmem (t : tid) (l : list tid) : bool := existsb (Nat.eqb t) l.
Definition e2s_start_test (e : e2s) (t : tid) : e2s :=
  {| e_errs := e_errs e; e_open := if tmem t (e_open e) then e_open e else e_open e ++ [t];
     e_stopped := e_stopped e; e_ff := e_ff e |}.
Definition e2s_outcome (e : e2s) (k : kind) (t : tid) : e2s :=
  let st := status_of k in
  {| e_errs := if in_words st summary_error_statuses then S (e_errs e) else e_errs e;
     e_open := filter (fun u => negb (Nat.eqb t u)) (e_open e);
     e_stopped := e_stopped e || (e_ff e && in_words st failfast_statuses);
     e_ff := e_ff e |}.
Definition e2s_step (e : e2s) (o : op) : e2s :=
  match o with
  | StartRun => {| e_errs := 0; e_open := []; e_stopped := false; e_ff := e_ff e |}
  | StartTest t => e2s_start_test e t
  | Outcome k _ t => e2s_outcome e k t
  | Block k _ t => e2s_outcome (e2s_start_test e t) k t
  | StopTest _ | StopAt _ => e
  | StopRun => {| e_errs := if summary_flush_counts then e_errs e + length (e_open e) else e_errs e;
                  e_open := []; e_stopped := e_stopped e; e_ff := e_ff e |}
  end.

(* ---------- ExtendedToOriginalDecorator over a foreign result ---------- *)
(* What the foreign object can do, probed by the harness on the live class (unittest.TestResult,
   doubles.Python26TestResult / Python27TestResult / ExtendedTestResult / TwistedTestResult). *)
Record fcaps := {
  fc_uxs : bool;          (* has addUnexpectedSuccess (else the decorator degrades to addFailure) *)
  fc_uxs_details : bool;  (* ... which accepts details= (else TypeError -> called again without) *)
  fc_details : bool;      (* addError / addFailure accept details= (else converted to an exc_info) *)
  fc_failfast : bool;     (* has a failfast attribute (else the decorator's own _failfast is used) *)
  fc_acts : bool;         (* its own addError / addFailure / addUnexpectedSuccess call stop() when its failfast is set *)
  fc_stop : bool;         (* has stop() / shouldStop (else the decorator's own _shouldStop is used) *)
  fc_uxs_counts : bool;   (* its wasSuccessful() is False after its addUnexpectedSuccess *)
  fc_resets : bool        (* its startTestRun makes wasSuccessful() True again *)
}.
(* the decorator and the object as one unit: failfast / shouldStop as read through the decorator (the
   object's attribute if it has one, else the decorator's _failfast / _shouldStop); nobody resets
   shouldStop at startTestRun *)
Record fo := { fo_caps : fcaps; fo_ff : bool; fo_stopped : bool; fo_bad : bool }.
Definition fo_new (c : fcaps) : fo := {| fo_caps := c; fo_ff := false; fo_stopped := false; fo_bad := false |}.
Definition fo_ok (f : fo) : bool := negb (fo_bad f).
Definition fo_stop (f : fo) : fo :=
  {| fo_caps := fo_caps f; fo_ff := fo_ff f; fo_stopped := true; fo_bad := fo_bad f |}.
Definition fo_setff (b : bool) (f : fo) : fo :=
  {| fo_caps := fo_caps f; fo_ff := b; fo_stopped := fo_stopped f; fo_bad := fo_bad f |}.
(* the method of the foreign object that finally receives the outcome *)
Definition fo_lands (c : fcaps) (k : kind) : kind :=
  match k with KUxsuccess => if fc_uxs c then KUxsuccess else KFailure | _ => k end.
Definition fo_outcome (f : fo) (k : kind) (d : bool) : fo :=
  let c := fo_caps f in
  let m := fo_lands c k in
  (* the object's own failfast handling: only if the attribute lives on the object *)
  let self_stop := bad m && fc_failfast c && fc_acts c && fo_ff f in
  (* ExtendedToOriginalDecorator.addError / addFailure / addUnexpectedSuccess: finally: if self.failfast: self.stop()
     - on every path: details accepted, details refused (TypeError) and converted, no details, degraded *)
  let deco_stop := bad k && fo_ff f in
  {| fo_caps := c; fo_ff := fo_ff f;
     fo_stopped := fo_stopped f || self_stop || deco_stop;
     fo_bad := fo_bad f || match m with KError | KFailure => true | KUxsuccess => fc_uxs_counts c | _ => false end |}.
Definition fo_step (f : fo) (o : op) : fo :=
  match o with
  | StartRun => {| fo_caps := fo_caps f; fo_ff := fo_ff f; fo_stopped := fo_stopped f;
                   fo_bad := if fc_resets (fo_caps f) then false else fo_bad f |}
  | Outcome k d _ | Block k d _ => fo_outcome f k d
  | _ => f
  end.

(* ---------- stacks ---------- *)
Inductive adapter :=
| ATR (ff txt : bool)           (* TestResult(failfast=ff) / TextTestResult(stream, failfast=ff) *)
| AE2S                          (* ExtendedToStreamDecorator(stream sink) *)
| AFor (c : fcaps)              (* ExtendedToOriginalDecorator(a foreign result with capabilities c) *)
| AMulti (l : list adapter)     (* MultiTestResult over the members *)
| ATFR (a : adapter)            (* ThreadsafeForwardingResult *)
| AE2O (a : adapter)            (* ExtendedToOriginalDecorator *)
| ADeco (tagger : bool) (a : adapter).   (* TestResultDecorator / Tagger *)

(* state of a stack.  An ExtendedToOriginalDecorator contributes its _failfast (used only while the
   decorated object has no failfast attribute); MultiTestResult and ThreadsafeForwardingResult wrap their
   targets in one. *)
Inductive node :=
| NTR (r : tr)
| NE2S (e : e2s)
| NFor (f : fo)
| NMulti (l : list (bool * node))
| NTFR (ff : bool) (e : bool) (x : node)     (* own (inert) failfast attribute; self.result = E2O(x) *)
| NE2O (e : bool) (x : node)
| NDeco (ff : option bool) (x : node).       (* failfast is a plain instance attribute once assigned *)

Definition has_ff (n : node) : bool := match n with NDeco None _ => false | _ => true end.   (* hasattr(n, "failfast") *)

Fixpoint get_ff (n : node) : bool :=
  match n with
  | NTR r => tr_ff r
  | NE2S e => e_ff e
  | NFor f => fo_ff f
  | NMulti l => match l with ec :: _ => if has_ff (snd ec) then get_ff (snd ec) else fst ec | [] => false end
  | NTFR ff _ _ => ff
  | NE2O e x => if has_ff x then get_ff x else e
  | NDeco (Some b) _ => b
  | NDeco None _ => false
  end.
Definition e2o_get (ec : bool * node) : bool := if has_ff (snd ec) then get_ff (snd ec) else fst ec.

Fixpoint set_ff (b : bool) (n : node) : node :=
  match n with
  | NTR r => NTR (tr_setff b r)
  | NE2S e => NE2S (e2s_setff b e)
  | NFor f => NFor (fo_setff b f)
  | NMulti l => NMulti (map (fun ec => if has_ff (snd ec) then (fst ec, set_ff b (snd ec)) else (b, snd ec)) l)
  | NTFR _ e x => NTFR b e x
  | NE2O e x => if has_ff x then NE2O e (set_ff b x) else NE2O b x
  | NDeco _ x => NDeco (Some b) x
  end.
Definition e2o_set (b : bool) (ec : bool * node) : bool * node :=
  if has_ff (snd ec) then (fst ec, set_ff b (snd ec)) else (b, snd ec).

Fixpoint stop (n : node) : node :=
  match n with
  | NTR r => NTR (tr_stop r)
  | NE2S e => NE2S (e2s_stop e)
  | NFor f => NFor (fo_stop f)
  | NMulti l => NMulti (map (fun ec => (fst ec, stop (snd ec))) l)
  | NTFR ff e x => NTFR ff e (stop x)
  | NE2O e x => NE2O e (stop x)
  | NDeco ff x => NDeco ff (stop x)
  end.

Fixpoint should_stop (n : node) : bool :=
  match n with
  | NTR r => tr_stopped r
  | NE2S e => e_stopped e
  | NFor f => fo_stopped f
  | NMulti l => existsb (fun ec => should_stop (snd ec)) l
  | NTFR _ _ x | NE2O _ x | NDeco _ x => should_stop x
  end.

Fixpoint was_ok (n : node) : bool :=
  match n with
  | NTR r => tr_ok r
  | NE2S e => e2s_ok e
  | NFor f => fo_ok f
  | NMulti l => forallb (fun ec => was_ok (snd ec)) l
  | NTFR _ _ x | NE2O _ x | NDeco _ x => was_ok x
  end.

Definition is_bad_call (o : op) : bool :=
  match o with Outcome k _ _ | Block k _ _ => bad k | _ => false end.

(* one call arriving at a node (not StopAt).  MultiTestResult.startTestRun also re-assigns every member's
   failfast to the first member's; on every state reachable here the members already agree (Proof.C04
   sync_id), so that step is the identity and is left out. *)
Fixpoint step (n : node) (o : op) : node :=
  match n with
  | NTR r => NTR (tr_step r o)
  | NE2S e => NE2S (e2s_step e o)
  | NFor f => NFor (fo_step f o)
  | NMulti l =>
      NMulti (map (fun ec => let c' := step (snd ec) o in
                             (* ExtendedToOriginalDecorator.add*: finally: if self.failfast: self.stop() *)
                             if is_bad_call o && (if has_ff c' then get_ff c' else fst ec)
                             then (fst ec, stop c') else (fst ec, c')) l)
  | NTFR ff e x =>
      let o' := match o with
                | Outcome k d t => Some (Block k d t)
                | StartTest _ | StopTest _ => None          (* kept local *)
                | _ => Some o
                end in
      match o' with
      | None => n
      | Some m => let x' := step x m in
                  NTFR ff e (if is_bad_call m && (if has_ff x' then get_ff x' else e) then stop x' else x')
      end
  | NE2O e x =>
      let x' := step x o in
      NE2O e (if is_bad_call o && (if has_ff x' then get_ff x' else e) then stop x' else x')
  | NDeco ff x => NDeco ff (step x o)
  end.

Fixpoint stop_at (p : list nat) (n : node) : node :=
  match p with
  | [] => stop n
  | j :: q =>
      match n with
      | NTR _ | NE2S _ | NFor _ => n
      | NMulti l =>
          NMulti ((fix go (l : list (bool * node)) (j : nat) : list (bool * node) :=
                     match l, j with
                     | [], _ => []
                     | ec :: r, 0 => (fst ec, stop_at q (snd ec)) :: r
                     | ec :: r, S j' => ec :: go r j'
                     end) l j)
      | NTFR ff e x => match j with 0 => NTFR ff e (stop_at q x) | _ => n end
      | NE2O e x => match j with 0 => NE2O e (stop_at q x) | _ => n end
      | NDeco ff x => match j with 0 => NDeco ff (stop_at q x) | _ => n end
      end
  end.

Definition do_op (n : node) (o : op) : node :=
  match o with StopAt p => stop_at p n | _ => step n o end.

(* construction.  MultiTestResult.__init__ assigns failfast = False, which is dispatched to every member. *)
Fixpoint build (a : adapter) : node :=
  match a with
  | ATR ff txt => NTR (tr_new ff txt)
  | AE2S => NE2S e2s_new
  | AFor c => NFor (fo_new c)
  | AMulti l => NMulti (map (fun x => e2o_set false (false, build x)) l)
  | ATFR x => NTFR false false (build x)
  | AE2O x => NE2O false (build x)
  | ADeco _ x => NDeco None (build x)
  end.

(* failfast assigned on the outermost object after the stack has been put together *)
Definition init (a : adapter) (set_after : option bool) : node :=
  match set_after with Some b => set_ff b (build a) | None => build a end.

(* per leaf, depth first *)
Fixpoint leaf_stops (n : node) : list bool :=
  match n with
  | NTR r => [tr_stopped r]
  | NE2S e => [e_stopped e]
  | NFor f => [fo_stopped f]
  | NMulti l => flat_map (fun ec => leaf_stops (snd ec)) l
  | NTFR _ _ x | NE2O _ x | NDeco _ x => leaf_stops x
  end.
Fixpoint leaf_outs (n : node) : list (list summary) :=
  match n with
  | NTR r => [tr_out r]
  | NE2S e => [[]]
  | NFor _ => [[]]
  | NMulti l => flat_map (fun ec => leaf_outs (snd ec)) l
  | NTFR _ _ x | NE2O _ x | NDeco _ x => leaf_outs x
  end.

(* the state after each call *)
Fixpoint states (n : node) (h : list op) : list node :=
  match h with [] => [] | o :: r => let n' := do_op n o in n' :: states n' r end.

(* ---------- several ThreadsafeForwardingResults sharing one target and one semaphore ---------- *)
(* One adapter per thread (ConcurrentTestSuite's arrangement), all over the same target with the same
   Semaphore(1).  Every forwarding method of the adapter (startTestRun, add*, stop, stopTestRun) is
   semaphore.acquire(); <calls on the target>; semaphore.release(); return.  Under the deterministic scheduler
   of the harness (vcheck/sched.py) the acquire and the release are the yield points: a thread parks before its
   acquire until the semaphore is free and the scheduler picks it, then does all its calls on the target and
   parks before its release; picked again it releases, returns and runs on to the acquire of its next call.
   A thread: the calls it still has to make (the head is the current one) and whether it is parked at the
   release of the current call, holding the semaphore. *)
Definition cth := (list op * bool)%type.
Definition c_done (t : cth) : bool := match fst t with [] => true | _ => false end.
Definition c_ready (free : bool) (t : cth) : bool := negb (c_done t) && (snd t || free).
(* sched.py: the schedule entry names a task; if that one cannot run, the next runnable one cyclically;
   an exhausted schedule picks the lowest-numbered runnable task (= entry 0) *)
Definition rotation (want n : nat) : list nat := let w := want mod n in seq w (n - w) ++ seq 0 w.
Definition pick (want : nat) (ts : list cth) : option nat :=
  let free := negb (existsb snd ts) in
  find (fun k => match nth_error ts k with Some t => c_ready free t | None => false end)
       (rotation want (length ts)).
Fixpoint set_nth {A} (k : nat) (x : A) (l : list A) : list A :=
  match l, k with
  | [], _ => []
  | _ :: r, 0 => x :: r
  | y :: r, S k' => y :: set_nth k' x r
  end.
Definition c_run (t : cth) : cth :=
  match t with
  | (o :: r, true) => (r, false)          (* release; return; on to the next call *)
  | (o :: r, false) => (o :: r, true)     (* acquire; the calls on the target; up to the release *)
  | _ => t
  end.
(* the threads whose calls take effect on the target, in that order *)
Fixpoint run_sched (fuel : nat) (ts : list cth) (sch : list nat) : list nat :=
  match fuel with
  | 0 => []
  | S f =>
      if forallb c_done ts then [] else
      match pick (hd 0 sch) ts with
      | None => []                         (* deadlock: does not happen, Proof.C04.run_sched_complete *)
      | Some k => match nth_error ts k with
                  | Some t => (if snd t then [] else [k]) ++ run_sched f (set_nth k (c_run t) ts) (tl sch)
                  | None => []
                  end
      end
  end.
Definition linear_order (ths : list (list op)) (sch : list nat) : list nat :=
  run_sched (2 * length (concat ths)) (map (fun p => (p, false)) ths) sch.

(* the calls of the threads put into one sequence: ord names, call by call, the thread whose next call comes;
   None unless every call of every thread is used exactly once *)
Definition is_nil {A} (l : list A) : bool := match l with [] => true | _ => false end.
Fixpoint merge (ths : list (list op)) (ord : list nat) : option (list op) :=
  match ord with
  | [] => if forallb is_nil ths then Some [] else None
  | k :: r => match nth_error ths k with
              | Some (o :: rest) => option_map (cons o) (merge (set_nth k rest ths) r)
              | _ => None
              end
  end.

(* run.py: sys.exit(not result.wasSuccessful()); what the operating system reports for sys.exit(n) is n mod 256 *)
Definition exit_arg (ok : bool) : nat := if ok then 0 else 1.
Definition os_status (arg : nat) : nat := arg mod 256.
Definition exit_status (ok : bool) : nat := os_status (exit_arg ok).
