(* Model of testtools/twistedsupport/_spinner.py: Spinner.run (275-331) with the
   stop->crash substitution, _timed_out, _stop_reactor, _got_success/_got_failure,
   _get_result (181-221), _clean (223-247), _save/_restore_signals (262-273),
   not_reentrant (42-57), over the reactor of Model/Reactor.v.
   The user's function is a small program (what it returns, what it leaves behind,
   when a stop is requested); running it is a discrete-event simulation.
   Executable definitions only. *)
From TT Require Import Lib.Base Model.Reactor Gen.Spinnertabs.

Definition value := nat.

Inductive exc :=
| EUser (e : nat)        (* an exception of the user's: raised by the function or carried by its Deferred *)
| ETimeout | ENoResult | EReentry | EStaleJunk
| EOther.                (* anything else (never produced on well-formed inputs; see Proof/C15.v) *)

Inductive outcome := Succeed (v : value) | Fail (e : nat).

(* what the function hands back *)
Inductive shape :=
| Sync (how : nat) (o : outcome)    (* returns v / raises e (how = 0), or returns an already fired Deferred (how = 1) *)
| Later (t : time) (o : outcome)    (* returns a Deferred that fires / fails t ticks after the call *)
| Never.                            (* returns a Deferred that never fires *)

Record fn := mkFn {
  f_shape : shape;
  f_extras : list (time * option bool);
                                    (* further delayed calls: (delay, None) does nothing; (delay, Some o) tries to call
                                       Spinner.run itself when it runs (o: through ANOTHER Spinner on the same reactor),
                                       swallows whatever comes out and notes what happened *)
  f_sels : nat;                     (* selectables registered with the reactor *)
  f_stop : option time;             (* reactor.stop() requested at this instant (an interrupt) *)
  f_stop_now : bool;                (* reactor.stop() called synchronously inside the function *)
  f_reenter : list bool;            (* the function tries to call Spinner.run itself, once per entry (true: through
                                       ANOTHER Spinner on the same reactor), swallowing the outcome each time *)
  f_setsig : option (nat * nat)     (* the function installs handler h for signal s *)
}.

(* a start-up hook somebody registered with reactor.callWhenRunning (an 'after startup' trigger) BEFORE run() was
   entered: it calls reactor.stop() directly, schedules a delayed call that does nothing, or does nothing *)
Inductive hook := HStop | HSched (d : time) | HNoop.

(* what a reactor callback does *)
Inductive action :=
| ATimeout                          (* Spinner._timed_out *)
| AFire (o : outcome)               (* the function's Deferred fires *)
| AStopReq                          (* lambda: reactor.stop() *)
| ANoop (tok : nat)
| ATry (tok : nat) (other : bool)   (* a delayed call of the function's that tries a re-entrant run *)
| ARunFunction (T : time) (f : fn)  (* the callWhenRunning hook of Spinner.run *)
| AHook (j : nat) (h : hook).       (* the j-th start-up hook registered before run() *)

(* tokens under which calls / selectables are reported (ran, junk) *)
Definition tok_timeout := 0.
Definition tok_fire := 1.
Definition tok_stop := 2.
Definition tok_extra (i : nat) := 10 + i.
Definition tok_sel (j : nat) := 100 + j.
Definition tok_hook (j : nat) := 200 + j.   (* the delayed call scheduled by the j-th start-up hook *)
Definition tok_of (a : action) : nat :=
  match a with
  | ATimeout => tok_timeout | AFire _ => tok_fire | AStopReq => tok_stop | ANoop t => t | ATry t _ => t
  | ARunFunction _ _ => tok_timeout | AHook _ _ => tok_timeout
  end.

(* ---- process signal table: signal number -> handler id (0 = SIG_DFL); later entries shadow ---- *)
Definition sigtab := list (nat * nat).
Fixpoint getsig (s : nat) (t : sigtab) : nat :=
  match t with
  | [] => 0
  | (k, h) :: r => if Nat.eqb k s then h else getsig s r
  end.
Definition setsig (s h : nat) (t : sigtab) : sigtab := (s, h) :: t.
Definition h_reactor := 9.                                   (* the reactor's own handler *)
Definition h_none := 5.   (* what signal.getsignal() reports as None: a handler that was not installed from Python.
                             Nobody can install it: signal.signal(sig, None) raises TypeError *)
Definition reactor_signals := [sig_int; sig_term; sig_chld]. (* what reactor.run() installs *)

(* ---- state ---- *)
Record spinner := mkSp {
  sp_success : option value;        (* _UNSET = None *)
  sp_failure : option exc;
  sp_junk : list nat;
  sp_spinning : bool;
  sp_timeout_call : option nat;     (* handle of the DelayedCall *)
  sp_saved : sigtab                 (* _saved_signals *)
}.
Definition new_spinner := mkSp None None [] false None [].

(* what the attribute reactor.stop currently is: the reactor's stock method, an override that somebody
   installed on the reactor instance before the call (a shutdown hook, a logging wrapper: it goes on to
   call the stock stop), or the spinner's _fake_stop *)
Inductive stopfn := SReal | SUser (k : nat) | SFake.

Record world := mkW {
  w_r : reactor action;
  w_stop : stopfn;
  w_sig : sigtab;
  w_flag : bool;                    (* not_reentrant's _calls[run] *)
  w_sp : spinner;
  w_ran : list nat;                 (* tokens of the delayed calls that have run, in order (0 = the timeout call) *)
  w_reentry : list bool             (* one entry per re-entrant call tried during this run, in order: it raised
                                       ReentryError (and changed nothing) *)
}.
Definition new_world (orc : list nat) := mkW (new_reactor orc) SReal [] false new_spinner [] [].

Definition set_r r w := mkW r (w_stop w) (w_sig w) (w_flag w) (w_sp w) (w_ran w) (w_reentry w).
Definition set_stop s w := mkW (w_r w) s (w_sig w) (w_flag w) (w_sp w) (w_ran w) (w_reentry w).
Definition set_sig t w := mkW (w_r w) (w_stop w) t (w_flag w) (w_sp w) (w_ran w) (w_reentry w).
Definition set_flag b w := mkW (w_r w) (w_stop w) (w_sig w) b (w_sp w) (w_ran w) (w_reentry w).
Definition set_sp sp w := mkW (w_r w) (w_stop w) (w_sig w) (w_flag w) sp (w_ran w) (w_reentry w).
Definition set_ran l w := mkW (w_r w) (w_stop w) (w_sig w) (w_flag w) (w_sp w) l (w_reentry w).
Definition set_reentry x w := mkW (w_r w) (w_stop w) (w_sig w) (w_flag w) (w_sp w) (w_ran w) x.

Definition sp_set_result s f sp := mkSp s f (sp_junk sp) (sp_spinning sp) (sp_timeout_call sp) (sp_saved sp).
Definition sp_set_junk j sp := mkSp (sp_success sp) (sp_failure sp) j (sp_spinning sp) (sp_timeout_call sp) (sp_saved sp).
Definition sp_set_spinning b sp := mkSp (sp_success sp) (sp_failure sp) (sp_junk sp) b (sp_timeout_call sp) (sp_saved sp).
Definition sp_set_timeout_call c sp := mkSp (sp_success sp) (sp_failure sp) (sp_junk sp) (sp_spinning sp) c (sp_saved sp).
Definition sp_set_saved t sp := mkSp (sp_success sp) (sp_failure sp) (sp_junk sp) (sp_spinning sp) (sp_timeout_call sp) t.

Definition later (d : time) (a : action) (w : world) : world := set_r (fst (call_later d a (w_r w))) w.

(* ---- Spinner's callbacks ---- *)
(* _stop_reactor, 211-216 *)
Definition stop_reactor (w : world) : world :=
  if sp_spinning (w_sp w)
  then set_sp (sp_set_spinning false (w_sp w)) (set_r (crash (w_r w)) w)
  else w.

(* _cancel_timeout, 181-183 *)
Definition cancel_timeout (w : world) : world :=
  match sp_timeout_call (w_sp w) with
  | Some s => set_r (cancel s (w_r w)) w
  | None => w
  end.

(* is the DelayedCall of the timeout still pending (neither called nor cancelled) *)
Definition timeout_pending (w : world) : bool :=
  match sp_timeout_call (w_sp w) with
  | Some s => existsb (fun c => Nat.eqb (dc_seq c) s) (queue (w_r w))
  | None => false
  end.

(* _got_success / _got_failure, 192-198.  DelayedCall.cancel() on a call that has already run raises
   AlreadyCalled: the callback then fails BEFORE it records anything (the failure is swallowed by the
   addBoth(_stop_reactor) that follows) *)
Definition got (o : outcome) (w : world) : world :=
  if timeout_pending w then
    let w := cancel_timeout w in
    match o with
    | Succeed v => set_sp (sp_set_result (Some v) (sp_failure (w_sp w)) (w_sp w)) w
    | Fail e => set_sp (sp_set_result (sp_success (w_sp w)) (Some (EUser e)) (w_sp w)) w
    end
  else w.

(* _timed_out, 218-221 *)
Definition timed_out (w : world) : world :=
  stop_reactor (set_sp (sp_set_result (sp_success (w_sp w)) (Some ETimeout) (w_sp w)) w).

(* reactor.stop(): whatever the attribute currently holds; _fake_stop (200-209) crashes *)
Definition reactor_stop (w : world) : world :=
  match w_stop w with
  | SFake => set_r (crash (w_r w)) w
  | SReal | SUser _ => set_r (real_stop (w_r w)) w
  end.

Definition log_ran (t : nat) (w : world) : world := set_ran (w_ran w ++ [t]) w.

Definition is_reentry (r : res value exc) : bool :=
  match r with Raised EReentry => true | _ => false end.

(* somebody calls run() while a run may be in progress (`other`: through another Spinner object - the guard of
   not_reentrant is per decorated function, not per object) and notes whether it was refused *)
Definition try_reenter (inner : world -> res value exc * world) (other : bool) (w : world) : world :=
  let '(r, w') := inner w in set_reentry (w_reentry w' ++ [is_reentry r]) w'.

(* a delayed call runs *)
Definition exec_call (inner : world -> res value exc * world) (c : dcall action) (w : world) : world :=
  match dc_act c with
  | ATimeout => timed_out (log_ran tok_timeout w)
  | AFire o => stop_reactor (got o (log_ran tok_fire w))   (* addCallbacks(_got_success, _got_failure); addBoth(_stop_reactor) *)
  | AStopReq => reactor_stop (log_ran tok_stop w)
  | ANoop t => log_ran t w
  | ATry t o => try_reenter inner o (log_ran t w)
  | ARunFunction _ _ | AHook _ _ => w
  end.

(* ---- the user's function, called through maybeDeferred from run_function (316-319) ---- *)
Definition extra_action (i : nat) (x : option bool) : action :=
  match x with None => ANoop (tok_extra i) | Some o => ATry (tok_extra i) o end.
Fixpoint schedule_extras (i : nat) (ds : list (time * option bool)) (w : world) : world :=
  match ds with
  | [] => w
  | d :: r => schedule_extras (S i) r (later (fst d) (extra_action i (snd d)) w)
  end.
Fixpoint add_sels (j n : nat) (w : world) : world :=
  match n with
  | 0 => w
  | S n' => add_sels (S j) n' (set_r (add_reader (tok_sel j) (w_r w)) w)
  end.

Definition run_function (inner : world -> res value exc * world) (f : fn) (w : world) : world :=
  let w := schedule_extras 0 (f_extras f) w in
  let w := add_sels 0 (f_sels f) w in
  let w := match f_stop f with Some s => later s AStopReq w | None => w end in
  let w := match f_setsig f with Some (s, h) => set_sig (setsig s h (w_sig w)) w | None => w end in
  let w := fold_left (fun w o => try_reenter inner o w) (f_reenter f) w in
  let w := if f_stop_now f then reactor_stop w else w in
  match f_shape f with
  | Sync _ o => stop_reactor (got o w)      (* the callbacks run at once *)
  | Later t o => later t (AFire o) w
  | Never => w
  end.

Definition exec_hook (inner : world -> res value exc * world) (a : action) (w : world) : world :=
  match a with
  | ARunFunction _ f => run_function inner f w
  | AHook _ HStop => reactor_stop w                              (* whatever reactor.stop is at that moment *)
  | AHook j (HSched d) => later d (ANoop (tok_hook j)) w
  | _ => w
  end.

(* somebody registers start-up hooks before run() is entered *)
Fixpoint reg_hooks (j : nat) (hs : list hook) (w : world) : world :=
  match hs with
  | [] => w
  | h :: r => reg_hooks (S j) r (set_r (call_when_running (AHook j h) (w_r w)) w)
  end.

(* ---- signals, 262-273 ---- *)
Definition save_signals (w : world) : world :=
  set_sp (sp_set_saved (map (fun s => (s, getsig s (w_sig w))) preserved_signals) (w_sp w)) w.
(* _restore_signals, 270-277: a handler getsignal() reported as None cannot be put back (signal.signal rejects
   None) and is skipped *)
Definition restore_step (t : sigtab) (sh : nat * nat) : sigtab :=
  if Nat.eqb (snd sh) h_none then t else setsig (fst sh) (snd sh) t.
Definition restore_signals (w : world) : world :=
  set_sp (sp_set_saved [] (w_sp w)) (set_sig (fold_left restore_step (sp_saved (w_sp w)) (w_sig w)) w).

(* reactor.run(): installs its own handlers, runs the startup hooks, then the loop *)
Definition install_reactor_signals (w : world) : world :=
  set_sig (fold_left (fun t s => setsig s h_reactor t) reactor_signals (w_sig w)) w.

Definition reactor_run_w inner (batch : bool) (fuel : nat) (w : world) : loop_end * world :=
  reactor_run w_r set_r (exec_call inner) (exec_hook inner) batch fuel (install_reactor_signals w).

(* _get_result, 185-190 *)
Definition get_result (sp : spinner) : res value exc :=
  match sp_failure sp with
  | Some e => Raised e
  | None => match sp_success sp with
            | Some v => Ok v
            | None => Raised ENoResult
            end
  end.

(* _clean, 223-247: iterate, cancel what getDelayedCalls() returned, removeAll, remember junk *)
Definition clean inner (iters : nat) (w : world) : world :=
  let w := Nat.iter iters (iterate w_r set_r (exec_call inner)) w in
  let dcs := queue (w_r w) in                                    (* a fresh list *)
  let w := fold_left (fun w c => set_r (cancel (dc_seq c) (w_r w)) w) dcs w in
  let '(sels, r) := remove_all (w_r w) in
  let w := set_r r w in
  set_sp (sp_set_junk (sp_junk (w_sp w) ++ map (fun c => tok_of (dc_act c)) dcs ++ sels) (w_sp w)) w.

(* the body of run, 298-331 *)
Definition run_body inner (iters : nat) (batch : bool) (T : time) (f : fn) (w : world) : res value exc * world :=
  match sp_junk (w_sp w) with
  | _ :: _ => (Raised EStaleJunk, w)
  | [] =>
      let w := set_sp (sp_set_result None None (w_sp w)) w in
      let w := save_signals w in
      let '(r, s) := call_later T ATimeout (w_r w) in
      let w := set_sp (sp_set_timeout_call (Some s) (w_sp w)) (set_r r w) in
      let real := w_stop w in
      let w := set_stop SFake w in
      let w := set_r (call_when_running (ARunFunction T f) (w_r w)) w in
      let w := set_sp (sp_set_spinning true (w_sp w)) w in
      let fuel := length (queue (w_r w)) + length (hooks (w_r w)) + length (f_extras f) + 4 in
      let '(e, w) := reactor_run_w inner batch fuel w in
      (* finally *)
      let w := set_stop real w in
      let w := restore_signals w in
      match e with
      | LDone => (get_result (w_sp w), clean inner iters w)            (* try: return _get_result() finally: _clean() *)
      | _ => (Raised EOther, w)                                   (* an exception out of reactor.run(): only the finally ran *)
      end
  end.

(* not_reentrant, 42-57: one flag per decorated function, i.e. shared by all spinners *)
Definition guarded (body : world -> res value exc * world) (w : world) : res value exc * world :=
  if w_flag w then (Raised EReentry, w)
  else let '(r, w') := body (set_flag true w) in (r, set_flag false w').

Definition trivial_fn := mkFn (Sync 0 (Succeed 7)) [] 0 None false [] None.

(* a call made from inside the function: the same decorated run, on a trivial function *)
Definition inner_run (iters : nat) (batch : bool) (w : world) : res value exc * world :=
  guarded (run_body (fun w => (Raised EOther, w)) iters batch 5 trivial_fn) w.

Definition run (iters : nat) (batch : bool) (T : time) (f : fn) (w : world) : res value exc * world :=
  guarded (run_body (inner_run iters batch) iters batch T f) w.

(* clear_junk, 249-256 *)
Definition clear_junk (w : world) : world := set_sp (sp_set_junk [] (w_sp w)) w.
