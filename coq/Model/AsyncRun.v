(* Model of testtools/twistedsupport/_runtest.py, AsynchronousDeferredRunTest:
   _run_deferred's callback graph (333-385), _run_cleanups (307-327),
   _blocking_run_deferred (394-406), _run_core (419-456) with the log fixtures
   (106-181), and RunTest._run_prepared_result's choice of the reported exception
   (runtest.py:98-128), as TIMED STAGES ON A VIRTUAL CLOCK (DESIGN 6 C14):
   a stage starts at the instant the whole chain of its predecessor's Deferred was over
   (whether that Deferred was handed over unfired, or already fired but paused); the run is
   cut at the Spinner timeout or at an interrupt instant, whichever comes first; what is
   still scheduled then is junk.  A Deferred due exactly at the cut instant has lost, but
   the reactor may still make passes over what is due at that instant (the rest of the
   timeout call's iteration on a batch reactor, Spinner._clean's obligatory iterations):
   then the callback graph is RESUMED where it was waiting (resume_at, late) while the
   verdict stands.  That "the next stage starts when the previous chain is over" is built
   into this model and tied to the code by the correspondence check (real Deferreds, real
   inlineCallbacks over a virtual reactor).  Executable definitions only. *)
From TT Require Import Lib.Base Model.Reactor Gen.Spinnertabs.

Definition time := nat.

(* exception classes as far as the handlers of TestCase tell them apart *)
Inductive cls :=
| CErr      (* an ordinary Exception: reported by addError *)
| CFail     (* failureException: addFailure *)
| CSkip     (* skipException: addSkip *)
| CKbd.     (* KeyboardInterrupt: no handler claims it; last_resort reports an error and it propagates *)

Inductive sret :=
| RReturn                              (* returns a plain value *)
| RRaise (c : cls)                     (* raises *)
| RFired (f : option cls)              (* returns an already fired Deferred: succeed(None) (None) / fail(e) (Some c) *)
| RLater (d : time) (f : option cls)   (* returns a Deferred that fires (None) / fails (Some c) d ticks later *)
| RChained (d : time) (f : option cls) (* returns an ALREADY FIRED Deferred whose callback chain is paused on an inner
                                          Deferred that fires / fails d ticks later (Deferred.called is True) *)
| RNever.                              (* returns a Deferred that never fires *)

Record stage := mkStage {
  s_ret : sret;
  s_leave : list time;                 (* delayed calls left with the reactor (delays from the start of the stage) *)
  s_logerr : bool;                     (* log.err(...) without flushing *)
  s_drop : bool;                       (* creates a failed Deferred and drops it *)
  s_poll : bool                        (* starts a poller: a delayed call that reschedules itself whenever it fires *)
}.

Record program := mkProgram {
  i_broken : bool;                     (* AsynchronousDeferredRunTestForBrokenTwisted *)
  i_batch : bool;                      (* the reactor runs every call that is due when an iteration begins in that
                                          iteration, whatever crash() did meanwhile (the real runUntilCurrent); false:
                                          one call per iteration, crash() takes effect at once *)
  i_suppress : bool;                   (* suppress_twisted_logging *)
  i_store : bool;                      (* store_twisted_logs *)
  i_nobs : nat;                        (* extra log observers installed before the run *)
  i_timeout : time;
  i_interrupt : option time;           (* a signal arrives at this instant; its handler calls reactor.stop() *)
  i_setup : stage; i_body : stage; i_teardown : stage;
  i_cleanups : list stage              (* in registration order (registered at the start of setUp) *)
}.

(* stage identifiers in the execution log *)
Definition id_setup := 0.
Definition id_body := 1.
Definition id_teardown := 2.
Definition id_cleanup (k : nat) := 10 + k.

(* ---- the simulation state ---- *)
Record sim := mkSim {
  m_now : time;
  m_excs : list cls;                   (* RunTest._exceptions, in order *)
  m_fails : nat;                       (* len(fails) in _run_deferred *)
  m_pending : list time;               (* instants of the leftover delayed calls that have not run *)
  m_logged : nat;                      (* errors caught by the error observer, not flushed *)
  m_dropped : nat;                     (* DebugInfo objects holding an unhandled failure *)
  m_pollers : nat;                     (* pollers started: each always has one instance scheduled *)
  m_log : list (nat * time)            (* stage execution log: (stage, instant it started) *)
}.
Definition sim0 := mkSim 0 [] 0 [] 0 0 0 [].

Definition b2n (b : bool) : nat := if b then 1 else 0.

(* what a stage does when it is called *)
Definition start_stage (sid : nat) (st : stage) (m : sim) : sim :=
  mkSim (m_now m) (m_excs m) (m_fails m)
        (m_pending m ++ map (fun l => m_now m + l) (s_leave st))
        (m_logged m + b2n (s_logerr st)) (m_dropped m + b2n (s_drop st)) (m_pollers m + b2n (s_poll st))
        (m_log m ++ [(sid, m_now m)]).

(* the reactor reaches instant t / makes a pass at instant t: every leftover due up to t that was scheduled
   before has run *)
Definition advance (t : time) (m : sim) : sim :=
  mkSim t (m_excs m) (m_fails m) (filter (fun u => Nat.ltb t u) (m_pending m))
        (m_logged m) (m_dropped m) (m_pollers m) (m_log m).

(* what the runner has to wait for: nothing (the result or the failure is there at once), the end of a callback
   chain d ticks later - whether the Deferred it was handed has `called` set or not -, or for ever *)
Inductive completion := NowWith (f : option cls) | After (d : time) (f : option cls) | NeverDone.
Definition completion_of (r : sret) : completion :=
  match r with
  | RReturn => NowWith None
  | RRaise c => NowWith (Some c)
  | RFired f => NowWith f
  | RLater d f => After d f
  | RChained d f => After d f
  | RNever => NeverDone
  end.

Inductive sres :=
| Done (caught : option cls) (m : sim)                         (* the stage's Deferred fired at m_now m; what it raised / failed with *)
| Cut (m : sim) (due : option time) (f : option cls).          (* it had not fired when the run was cut: the instant at
                                                                  which it is due (None: never), what it will fail with *)

(* C = the cut instant: a Deferred due at t fires iff t < C (the timeout call is older than every call of the
   test, and an interrupt is delivered before the calls due at it) *)
Definition run_stage (C : time) (sid : nat) (st : stage) (m : sim) : sres :=
  let m := start_stage sid st m in
  match completion_of (s_ret st) with
  | NowWith f => Done f m
  | After d f => if Nat.ltb (m_now m + d) C then Done f (advance (m_now m + d) m) else Cut m (Some (m_now m + d)) f
  | NeverDone => Cut m None None
  end.

(* _run_user: maybeDeferred + addErrback(_got_user_failure); the callback
   fail_if_exception_caught / set_up_done counts the failure *)
Definition note_failure (c : option cls) (m : sim) : sim :=
  match c with
  | None => m
  | Some x => mkSim (m_now m) (m_excs m ++ [x]) (S (m_fails m)) (m_pending m) (m_logged m) (m_dropped m)
                    (m_pollers m) (m_log m)
  end.

(* _run_cleanups: pops and awaits each cleanup; remembers only the LAST exception *)
Definition merge (c last : option cls) : option cls := match c with Some x => Some x | None => last end.

Inductive cres :=
| CDone (last : option cls) (m : sim)
| CCut (m : sim) (due : option time) (f : option cls)        (* the generator is suspended on this cleanup's Deferred *)
       (rest : list (nat * stage)) (last : option cls).       (* cleanups still registered; last_exception so far *)

Fixpoint run_cleanups (C : time) (cs : list (nat * stage)) (last : option cls) (m : sim) : cres :=
  match cs with
  | [] => CDone last m
  | (k, st) :: r =>
      match run_stage C k st m with
      | Cut m' due f => CCut m' due f r last
      | Done c m' => run_cleanups C r (merge c last) m'
      end
  end.

Fixpoint number_from (k : nat) (l : list stage) : list (nat * stage) :=
  match l with [] => [] | s :: r => (id_cleanup k, s) :: number_from (S k) r end.

(* where the callback graph of _run_deferred is waiting: the Deferred of which stage has not fired *)
Inductive waiting :=
| WSetup | WBody | WTeardown
| WCleanup (rest : list (nat * stage)) (last : option cls).

Inductive rres :=
| Completed (m : sim)                                         (* the Deferred of _run_deferred fired *)
| Stopped (m : sim) (nleft : nat)                             (* the reactor stopped first; cleanups still registered *)
          (due : option time) (f : option cls) (w : waiting). (* the outstanding Deferred and who waits for it *)

(* _run_cleanups resumed / started; clean_up_done *)
Definition k_cleanups (C : time) (cs : list (nat * stage)) (last : option cls) (m : sim) : rres :=
  match run_cleanups C cs last m with
  | CDone last' m' => Completed (note_failure last' m')
  | CCut m' due f rest last' => Stopped m' (length rest) due f (WCleanup rest last')
  end.
Definition clean_up (C : time) (p : program) (m : sim) : rres :=
  k_cleanups C (rev (number_from 0 (i_cleanups p))) None m.

(* tear_down and what follows when its Deferred has fired with c *)
Definition k_teardown (C : time) (p : program) (c : option cls) (m : sim) : rres := clean_up C p (note_failure c m).
Definition tear_down (C : time) (p : program) (m : sim) : rres :=
  match run_stage C id_teardown (i_teardown p) m with
  | Done c m' => k_teardown C p c m'
  | Cut m' due f => Stopped m' (length (i_cleanups p)) due f WTeardown
  end.
(* the test method *)
Definition k_body (C : time) (p : program) (c : option cls) (m : sim) : rres := tear_down C p (note_failure c m).
Definition run_test (C : time) (p : program) (m : sim) : rres :=
  match run_stage C id_body (i_body p) m with
  | Done c m' => k_body C p c m'
  | Cut m' due f => Stopped m' (length (i_cleanups p)) due f WBody
  end.
(* set_up_done: a failed setUp goes straight to the cleanups *)
Definition set_up_done (C : time) (p : program) (c : option cls) (m : sim) : rres :=
  match c with
  | Some x => clean_up C p (note_failure (Some x) m)
  | None => run_test C p m
  end.

(* _run_deferred *)
Definition run_deferred (C : time) (p : program) : rres :=
  match run_stage C id_setup (i_setup p) sim0 with
  | Done c m => set_up_done C p c m
  | Cut m due f => Stopped m (length (i_cleanups p)) due f WSetup
  end.

(* the outstanding Deferred fires (with f) although the run has been cut: its callbacks run *)
Definition resume_at (C : time) (p : program) (w : waiting) (f : option cls) (m : sim) : rres :=
  match w with
  | WSetup => set_up_done C p f m
  | WBody => k_body C p f m
  | WTeardown => k_teardown C p f m
  | WCleanup rest last => k_cleanups C rest (merge f last) m
  end.

(* ---- the cut ---- *)
Inductive cutkind := KTimeout | KInterrupt.
Definition cut_instant (p : program) : time :=
  match i_interrupt p with Some s => Nat.min s (i_timeout p) | None => i_timeout p end.
Definition cut_kind (p : program) : cutkind :=
  match i_interrupt p with
  | Some s => if Nat.leb s (i_timeout p) then KInterrupt else KTimeout
  | None => KTimeout
  end.

(* ---- log observers: the publisher's list, fixtures with LIFO cleanups ---- *)
Definition add_obs (x : nat) (l : list nat) : list nat := if existsb (Nat.eqb x) l then l else l ++ [x].
Fixpoint remove_obs (x : nat) (l : list nat) : list nat :=
  match l with [] => [] | y :: r => if Nat.eqb x y then r else y :: remove_obs x r end.
Inductive undo := UAdd (x : nat) | URemove (x : nat).
Definition apply_undo (l : list nat) (u : undo) : list nat :=
  match u with UAdd x => add_obs x l | URemove x => remove_obs x l end.
(* Fixture.cleanUp: cleanups in reverse order of registration *)
Definition clean_fixture (us : list undo) (l : list nat) : list nat := fold_left apply_undo (rev us) l.

(* _NoTwistedLogObservers._setUp: for observer in reversed(real): remove; addCleanup(add) *)
Definition no_observers (l : list nat) : list nat * list undo :=
  fold_left (fun acc x => (remove_obs x (fst acc), snd acc ++ [UAdd x])) (rev l) (l, []).
(* _TwistedLogObservers([x])._setUp *)
Definition with_observer (x : nat) (l : list nat) : list nat * list undo := (add_obs x l, [URemove x]).

(* observers are objects: the two the runner installs are distinct from each other and from every
   observer that was there before (ids 2 ..: the process's own sink and i_nobs extra ones) *)
Definition capture_obs := 0.          (* CaptureTwistedLogs' FileLogObserver.emit *)
Definition error_obs := 1.            (* _log_observer.gotEvent *)
Definition initial_observers (p : program) : list nat := seq 2 (S (i_nobs p)).

(* the observers while the test runs, and after both `with` blocks of _run_core were left *)
Definition observers_during (p : program) : list nat :=
  let l0 := initial_observers p in
  let l1 := if i_suppress p then fst (no_observers l0) else l0 in
  let l2 := if i_store p then fst (with_observer capture_obs l1) else l1 in
  fst (with_observer error_obs l2).
Definition observers_after (p : program) : list nat :=
  let l0 := initial_observers p in
  let '(l1, u1) := if i_suppress p then no_observers l0 else (l0, []) in
  let '(l2, u2) := if i_store p then with_observer capture_obs l1 else (l1, []) in
  let '(l3, u3) := with_observer error_obs l2 in
  let l4 := clean_fixture u3 l3 in              (* leaving `with _ErrorObserver` *)
  let l5 := clean_fixture u2 l4 in              (* CompoundFixture: last fixture first *)
  clean_fixture u1 l5.

(* ---- _blocking_run_deferred + _run_core ---- *)
Inductive ev := StartTest | AddSuccess | AddError | AddFailure | AddSkip | StopTest.

Record outcome := mkOut {
  r_events : list ev;
  r_stop : bool;                       (* result.stop() was called *)
  r_raised : option cls;               (* what propagates out of run() *)
  r_log : list (nat * time);
  r_unrun : nat;                       (* leftover delayed calls that never ran *)
  r_pending : nat;                     (* len(reactor.getDelayedCalls()) afterwards *)
  r_observers : list nat;
  r_cleanups_left : nat
}.

Definition iterations (p : program) : nat :=
  if i_broken p then broken_runner_iterations else runner_iterations.

(* reactor.iterate(0) n times at the instant the clock stands at: every leftover due by now runs *)
Definition settle (n : nat) (m : sim) : sim := match n with 0 => m | S _ => advance (m_now m) m end.

(* Spinner._clean cancels and reports what is left after the obligatory iterations (they are applied by `run`) *)
Definition junk_of (p : program) (m : sim) : list time := m_pending m.
(* is anything left with the reactor: a leftover call that has not run, or a poller (whether or not the
   iterations ran one of its instances, the next one is scheduled) *)
Definition dirty (p : program) (m : sim) : bool :=
  match junk_of p m with [] => Nat.ltb 0 (m_pollers m) | _ :: _ => true end.

(* what reactor.getDelayedCalls() returns when Spinner._clean looks (after the obligatory iterations):
   the leftovers that have not run (action false) and the scheduled instance of every poller (action
   true; its instant is some instant not before now and is never observed) *)
Definition final_queue (p : program) (m : sim) : list (dcall bool) :=
  let cs := map (fun t => (t, false)) (junk_of p m) ++ repeat (m_now m, true) (m_pollers m) in
  map (fun kc => mkCall (fst (snd kc)) (fst kc) (snd (snd kc))) (combine (seq 0 (length cs)) cs).
(* _spinner.py:235-237: for delayed_call in reactor.getDelayedCalls(): delayed_call.cancel() - over a FRESH
   list, each call taken out of the reactor's own queue *)
Definition spinner_clean (q : list (dcall bool)) : list (dcall bool) :=
  fold_left (fun q' c => remove_seq (dc_seq c) q') q q.

Definition claimed (c : cls) : bool := match c with CKbd => false | _ => true end.
(* runtest.py:108-117: the last caught exception, unless an earlier one is claimed by no handler *)
Definition pick (excs : list cls) : option cls :=
  match rev excs with
  | [] => None
  | last :: before =>
      Some (match find (fun c => negb (claimed c)) (rev before) with Some c => c | None => last end)
  end.
Definition ev_of (c : cls) : ev :=
  match c with CErr | CKbd => AddError | CFail => AddFailure | CSkip => AddSkip end.

Definition repeat_err (n : nat) : list cls := repeat CErr n.

(* _run_core after _blocking_run_deferred returned (ok, unhandled): logged errors, unhandled
   failures, junk, the single addSuccess; then _run_prepared_result reports one exception *)
Definition finish (p : program) (ok : bool) (unhandled : nat) (stop : bool) (nleft : nat) (m : sim) : outcome :=
  let junk := junk_of p m in
  let excs := m_excs m ++ repeat_err (m_logged m) ++ repeat_err unhandled
              ++ (if dirty p m then [CErr] else []) in
  let successful := ok && Nat.eqb (m_logged m) 0 && Nat.eqb unhandled 0 && negb (dirty p m) in
  mkOut ([StartTest] ++ (if successful then [AddSuccess] else [])
           ++ (match pick excs with Some c => [ev_of c] | None => [] end) ++ [StopTest])
        stop
        (match pick excs with Some CKbd => Some CKbd | _ => None end)
        (m_log m)
        (length junk)
        (length (spinner_clean (final_queue p m)))   (* what _clean left in the reactor *)
        (observers_after p)
        nleft.

(* the run is cut at C: the clock stands at C, the leftovers due before C have run *)
Definition reach_cut (C : time) (m : sim) : sim :=
  mkSim C (m_excs m) (m_fails m) (filter (fun u => Nat.leb C u) (m_pending m))
        (m_logged m) (m_dropped m) (m_pollers m) (m_log m).
(* NoResultError / TimeoutError is logged as a user exception (after spinner.run has raised it) *)
Definition note_cut (m : sim) : sim :=
  mkSim (m_now m) (m_excs m ++ [CErr]) (m_fails m) (m_pending m) (m_logged m) (m_dropped m) (m_pollers m) (m_log m).

(* After the cut the reactor may still make passes over what is due AT the cut instant, while the verdict
   (TimeoutError / NoResultError) stands:
     - when the Spinner's timeout call crashed a batch reactor, the other calls that were due when that
       iteration began still run in it (one pass);
     - Spinner._clean iterates the reactor _OBLIGATORY_REACTOR_ITERATIONS times (one pass each).
   A pass runs the calls that were scheduled before it began: the leftovers due by now, and the outstanding
   Deferred if it is due exactly at the cut instant - then the stages that follow run as far as they complete
   synchronously; a stage that waits for a Deferred due at this very instant is picked up by the next pass. *)
Definition passes (p : program) : nat :=
  (match cut_kind p with KTimeout => b2n (i_batch p) | KInterrupt => 0 end) + iterations p.

Fixpoint late (n : nat) (C : time) (p : program) (m : sim) (nleft : nat)
              (due : option time) (f : option cls) (w : waiting) : sim * nat :=
  match n with
  | 0 => (m, nleft)
  | S n' =>
      let m1 := advance C m in
      if option_eqb Nat.eqb due (Some C) then
        match resume_at C p w f m1 with
        | Completed m2 => (settle n' m2, 0)          (* _got_success comes too late: AlreadyCalled / nobody looks *)
        | Stopped m2 nleft' due' f' w' => late n' C p m2 nleft' due' f' w'
        end
      else (m1, nleft)
  end.

Definition run (p : program) : outcome :=
  let C := cut_instant p in
  match run_deferred C p with
  | Completed m => finish p (Nat.eqb (m_fails m) 0) (m_dropped m) false 0 (settle (iterations p) m)
  | Stopped m nleft due f w =>
      (* trap_unhandled_errors does no accounting when spinner.run raised; an interrupt also stops the result *)
      let '(m1, nleft') := late (passes p) C p (reach_cut C m) nleft due f w in
      finish p false 0 (match cut_kind p with KInterrupt => true | KTimeout => false end) nleft' (note_cut m1)
  end.
