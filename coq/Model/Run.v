(* Model of one run of a testtools.TestCase:
     testtools/runtest.py  RunTest.run, _run_one, _run_prepared_result, _run_core, _run_cleanups,
                           _run_user, _got_user_exception            (lines 68-230)
     testtools/testcase.py TestCase.run, _reset, exception_handlers, onException, _report_*,
                           _report_traceback, addCleanup, addDetail, addDetailUniqueName, expectThat,
                           assertThat, _matchHelper, expectFailure, patch, useFixture, gather_details,
                           _run_setup/_run_teardown (upcall checks), the skip decorators and the
                           @unittest.expectedFailure wrapper _expectedFailure
     testtools/monkey.py   MonkeyPatcher.patch / restore
   Executable definitions only.  Mutation of the case, the result and the patched
   object is state passing over the record [st].  The while-loop of _run_cleanups
   runs on explicit fuel (DESIGN section 5). *)
From TT Require Import Lib.Base Gen.Handlers.

(* ------------------------------------------------------------------ *)
(* exception classes                                                    *)
(* ------------------------------------------------------------------ *)
Inductive cls :=
| CBaseException | CException
| CSkip            (* unittest.SkipTest = TestCase.skipException *)
| CFail            (* AssertionError = TestCase.failureException *)
| CMismatch        (* testtools.matchers.MismatchError, a subclass of AssertionError *)
| CXFail | CUx     (* testcase._ExpectedFailure, testcase._UnexpectedSuccess *)
| CMulti           (* testtools.MultipleExceptions *)
| CSetupError      (* fixtures.SetupError *)
| CValueError      (* ValueError; stands for the ordinary Exception subclasses *)
| CKbd | CSysExit | CGenExit   (* KeyboardInterrupt, SystemExit, GeneratorExit: not Exception-derived *)
| CSub (parent : cls) (k : nat).   (* the user-defined subclass number k of parent *)

Fixpoint cls_eqb (a b : cls) : bool :=
  match a, b with
  | CBaseException, CBaseException | CException, CException | CSkip, CSkip | CFail, CFail
  | CMismatch, CMismatch | CXFail, CXFail | CUx, CUx | CMulti, CMulti | CSetupError, CSetupError
  | CValueError, CValueError | CKbd, CKbd | CSysExit, CSysExit | CGenExit, CGenExit => true
  | CSub p k, CSub q j => cls_eqb p q && Nat.eqb k j
  | _, _ => false
  end.

(* the class and all its base classes (the part of the MRO that matters) *)
Fixpoint supers (c : cls) : list cls :=
  match c with
  | CBaseException => [CBaseException]
  | CException => [CException; CBaseException]
  | CSkip => [CSkip; CException; CBaseException]
  | CFail => [CFail; CException; CBaseException]
  | CMismatch => [CMismatch; CFail; CException; CBaseException]
  | CXFail => [CXFail; CException; CBaseException]
  | CUx => [CUx; CException; CBaseException]
  | CMulti => [CMulti; CException; CBaseException]
  | CSetupError => [CSetupError; CException; CBaseException]
  | CValueError => [CValueError; CException; CBaseException]
  | CKbd => [CKbd; CBaseException]
  | CSysExit => [CSysExit; CBaseException]
  | CGenExit => [CGenExit; CBaseException]
  | CSub p _ => c :: supers p
  end.

Definition subclass (c d : cls) : bool := existsb (cls_eqb d) (supers c).

(* ------------------------------------------------------------------ *)
(* exceptions                                                           *)
(* ------------------------------------------------------------------ *)
Inductive exc :=
| Exc (c : cls) (arg : option nat)   (* an instance of class c (c <> MultipleExceptions); args = (arg,) or () *)
| Multi (l : list exc).              (* MultipleExceptions(exc_info_1, .., exc_info_n), of exactly that class *)

Definition cls_of (e : exc) : cls := match e with Exc c _ => c | Multi _ => CMulti end.
Definition arg_of (e : exc) : option nat := match e with Exc _ a => a | Multi _ => None end.
Definition isinstance (e : exc) (c : cls) : bool := subclass (cls_of e) c.

(* _got_user_exception, runtest.py:217-223: a MultipleExceptions *with* constituents
   is unpacked recursively; without, it is the ordinary exception it then is (fix F3) *)
Fixpoint flatten (e : exc) : list exc :=
  match e with
  | Exc _ _ => [e]
  | Multi [] => [e]
  | Multi l => (fix go (l : list exc) : list exc :=
                  match l with [] => [] | x :: r => flatten x ++ go r end) l
  end.

(* ------------------------------------------------------------------ *)
(* outcomes and the handler table                                       *)
(* ------------------------------------------------------------------ *)
Inductive outcome := OSuccess | OSkip | OFail | OXFail | OUx | OErr.
Definition outcome_eqb (a b : outcome) : bool :=
  match a, b with
  | OSuccess, OSuccess | OSkip, OSkip | OFail, OFail | OXFail, OXFail | OUx, OUx | OErr, OErr => true
  | _, _ => false
  end.

Definition cls_of_hclass (h : hclass) : option cls :=
  match h with
  | H_SkipTest => Some CSkip | H_AssertionError => Some CFail | H_ExpectedFailure => Some CXFail
  | H_UnexpectedSuccess => Some CUx | H_Exception => Some CException | H_BaseException => Some CBaseException
  | H_Other => None
  end.
Definition outcome_of_report (r : report) : option outcome :=
  match r with
  | R_success => Some OSuccess | R_skip => Some OSkip | R_failure => Some OFail
  | R_expected_failure => Some OXFail | R_unexpected_success => Some OUx | R_error => Some OErr
  | R_none | R_other => None
  end.

(* one entry of RunTest.handlers: the class, the outcome method its handler calls (None: none),
   and whether the handler is the generated _report_skip, which first records the skip reason *)
Record handler := { h_cls : cls; h_out : option outcome; h_reason : bool }.

Definition generated_handlers : list handler :=
  flat_map (fun hr => match cls_of_hclass (fst hr) with
                      | Some c => [{| h_cls := c; h_out := outcome_of_report (snd hr);
                                      h_reason := match snd hr with R_skip => true | _ => false end |}]
                      | None => []
                      end) exception_handlers.
Definition last_resort : option outcome := outcome_of_report last_resort_report.
(* onException, testcase.py:594-599: membership of the *exact* class in a list *)
Definition no_traceback (c : cls) : bool :=
  existsb (fun h => match cls_of_hclass h with Some d => cls_eqb c d | None => false end) no_traceback_classes.

Definition user_handler (co : cls * outcome) : handler :=
  {| h_cls := fst co; h_out := Some (snd co); h_reason := false |}.

Definition claims (hs : list handler) (e : exc) : bool := existsb (fun h => isinstance e (h_cls h)) hs.
Definition lookup (hs : list handler) (e : exc) : option handler := find (fun h => isinstance e (h_cls h)) hs.

(* runtest.py:111-118: the last exception caught, unless an earlier one is claimed by
   no handler (fix F1): then the first such *)
Definition choose (hs : list handler) (caught : list exc) : option exc :=
  match rev caught with
  | [] => None
  | lst :: _ => match find (fun e => negb (claims hs e)) (removelast caught) with
                | Some e => Some e
                | None => Some lst
                end
  end.

(* ------------------------------------------------------------------ *)
(* details                                                              *)
(* ------------------------------------------------------------------ *)
(* a detail name: a base string (numbered by the harness) followed by "-k" suffixes *)
Definition dname := (nat * list nat)%type.
Definition dname_eqb (a b : dname) : bool := Nat.eqb (fst a) (fst b) && list_eqb Nat.eqb (snd a) (snd b).
Definition n_traceback : dname := (0, []).
Definition n_failed_expectation : dname := (1, []).
Definition n_reason : dname := (2, []).
Definition suffixed (n : dname) (k : nat) : dname := (fst n, snd n ++ [k]).   (* "%s-%d" % (n, k) *)

Inductive content :=
| CLazy (loc : nat)          (* a Content whose iter_bytes reads cell loc when called *)
| CSnap (v : nat)            (* _copy_content: the bytes as they were when it was taken *)
| CTb                        (* TracebackContent of one exception *)
| CStack                     (* the StacktraceContent expectThat attaches *)
| CReason (r : option nat).  (* text_content(reason); None: "no reason given." *)

Definition details := list (dname * content).

Fixpoint dmem (n : dname) (d : details) : bool :=
  match d with [] => false | (m, _) :: r => dname_eqb n m || dmem n r end.
(* dict assignment: replace in place, else append *)
Fixpoint dput (n : dname) (c : content) (d : details) : details :=
  match d with
  | [] => [(n, c)]
  | (m, x) :: r => if dname_eqb n m then (m, c) :: r else (m, x) :: dput n c r
  end.

(* addDetailUniqueName / gather_details: n, n-1, n-2, ... until unused.  At most
   [length d] of the candidates can be taken, so [S (length d)] tries suffice. *)
Fixpoint first_free (n : dname) (d : details) (k fuel : nat) : dname :=
  match fuel with
  | 0 => suffixed n k
  | S f => if dmem (suffixed n k) d then first_free n d (S k) f else suffixed n k
  end.
Definition unique_name (n : dname) (d : details) : dname :=
  if dmem n d then first_free n d 1 (length d) else n.

(* _report_traceback, testcase.py:624-639: the counter persists per run, the label accumulates *)
Fixpoint tb_label (fuel id : nat) (lab : dname) (d : details) : dname * nat :=
  let lab' := match id with 0 => lab | _ => suffixed lab id end in
  if dmem lab' d then
    match fuel with 0 => (lab', S id) | S f => tb_label f (S id) lab' d end
  else (lab', S id).

(* ------------------------------------------------------------------ *)
(* programs                                                             *)
(* ------------------------------------------------------------------ *)
(* a fixtures.Fixture subclass instance *)
Record fixture := {
  fx_tok : nat;                            (* logged when its set-up starts *)
  fx_old : bool;                           (* overrides setUp itself (pre-1.3 style) instead of _setUp *)
  fx_details : list (dname * nat);         (* its addDetail calls during set-up: name, cell *)
  fx_cleanups : list (nat * option exc);   (* its own addCleanup calls: token logged, what the function raises *)
  fx_fail : option exc;                    (* what set-up raises after all that *)
  fx_bad : option (nat * exc) }.           (* (k, g): evaluating the content of the detail at position k of
                                              getDetails() raises g (a log file that is gone, ...) *)

Inductive act :=
| ADetail (n : dname) (loc : nat)            (* self.addDetail(n, content reading cell loc) *)
| ASetCell (loc v : nat)                     (* what that content yields changes *)
| AExpect (mm : list (dname * nat))          (* self.expectThat(..): mismatch carrying these details *)
| AAssert (mm : list (dname * nat))          (* self.assertThat(..): mismatch carrying these details *)
| ACleanup (tok : nat) (body : list act)     (* self.addCleanup(f); f logs tok, then performs body *)
| APatch (attr v : nat)                      (* self.patch(obj, name, v); attr = the key of (obj, name), see [parent] *)
| AFixture (fx : fixture)                    (* self.useFixture(fx) *)
| AOnExc (h : nat)                           (* self.addOnException(handler number h) *)
| AForce                                     (* self.force_failure = True *)
| AInsertHandler (c : cls) (o : outcome)     (* self.exception_handlers.insert(0, (c, handler reporting o)) *)
| AExpectFailure (r : nat) (p : option exc)  (* self.expectFailure(reason r, predicate); predicate returns / raises p *)
| APeek (n : dname)                          (* the body reads its own detail n now, if it has one:
                                                b"".join(self.getDetails()[n].iter_bytes()); no effect *)
| ARaise (e : exc).

Record prog := {
  p_skip : option nat;                 (* skip decorator (class or method): its reason *)
  p_xfail : bool;                      (* @unittest.expectedFailure on the test method *)
  p_setup : nat * list act;    p_up_setup : bool;       (* token, body; does it upcall TestCase.setUp *)
  p_body : nat * list act;
  p_teardown : nat * list act; p_up_teardown : bool;
  p_handlers : list (cls * outcome);   (* put at the front of exception_handlers before run(), in this order *)
}.

(* RunTest.handlers is the list object TestCase.exception_handlers: whatever the test has put
   in front of it by the time the outcome is chosen counts *)
Definition handlers_of (u : list (cls * outcome)) : list handler := map user_handler u ++ generated_handlers.

(* ------------------------------------------------------------------ *)
(* state                                                                *)
(* ------------------------------------------------------------------ *)
Inductive lev :=          (* execution log written by the generated bodies and by the patched object *)
| LTok (t : nat)          (* a stage, cleanup or fixture body started *)
| LSet (attr v : nat)     (* setattr(scratch, attr, v) *)
| LDel (attr : nat).      (* delattr(scratch, attr) *)

Inductive ocontent := OBytes (v : nat) | OTb | OStack | OReason (r : option nat).
Inductive tev :=          (* what the result object and the addOnException handlers see, in order *)
| TStart | TStop
| TOut (o : outcome) (d : list (dname * ocontent))
| THandler (h : nat) (c : cls).

Inductive cleanup :=      (* an entry of TestCase._cleanups *)
| KUser (tok : nat) (body : list act)
| KRestore (attr : nat) (old : option nat)        (* MonkeyPatcher.restore *)
| KGather (fx : fixture)                          (* gather_details(fixture.getDetails(), self.getDetails()) *)
| KFxClean (fx : fixture).                        (* fixture.cleanUp *)

Record st := {
  log : list lev;
  excs : list exc;              (* RunTest._exceptions *)
  stack : list cleanup;         (* TestCase._cleanups, top first *)
  dets : details;               (* TestCase.__details *)
  tbgen : nat;                  (* next value of _traceback_id_gens['traceback'] *)
  cells : list (nat * nat);
  attrs : list (nat * nat);     (* the namespaces of the patched objects: key -> value *)
  onexc : list nat;             (* TestCase.__exception_handlers; not reset between runs *)
  force : bool;                 (* TestCase.force_failure; not reset between runs *)
  uh : list (cls * outcome);    (* what the user put in front of TestCase.exception_handlers, first first;
                                   the list object is shared with RunTest and not reset between runs *)
  tr : list tev }.

Definition set_log v s := {| log := v; excs := excs s; stack := stack s; dets := dets s; tbgen := tbgen s; cells := cells s; attrs := attrs s; onexc := onexc s; force := force s; uh := uh s; tr := tr s |}.
Definition set_excs v s := {| log := log s; excs := v; stack := stack s; dets := dets s; tbgen := tbgen s; cells := cells s; attrs := attrs s; onexc := onexc s; force := force s; uh := uh s; tr := tr s |}.
Definition set_stack v s := {| log := log s; excs := excs s; stack := v; dets := dets s; tbgen := tbgen s; cells := cells s; attrs := attrs s; onexc := onexc s; force := force s; uh := uh s; tr := tr s |}.
Definition set_dets v s := {| log := log s; excs := excs s; stack := stack s; dets := v; tbgen := tbgen s; cells := cells s; attrs := attrs s; onexc := onexc s; force := force s; uh := uh s; tr := tr s |}.
Definition set_tbgen v s := {| log := log s; excs := excs s; stack := stack s; dets := dets s; tbgen := v; cells := cells s; attrs := attrs s; onexc := onexc s; force := force s; uh := uh s; tr := tr s |}.
Definition set_cells v s := {| log := log s; excs := excs s; stack := stack s; dets := dets s; tbgen := tbgen s; cells := v; attrs := attrs s; onexc := onexc s; force := force s; uh := uh s; tr := tr s |}.
Definition set_attrs v s := {| log := log s; excs := excs s; stack := stack s; dets := dets s; tbgen := tbgen s; cells := cells s; attrs := v; onexc := onexc s; force := force s; uh := uh s; tr := tr s |}.
Definition set_onexc v s := {| log := log s; excs := excs s; stack := stack s; dets := dets s; tbgen := tbgen s; cells := cells s; attrs := attrs s; onexc := v; force := force s; uh := uh s; tr := tr s |}.
Definition set_force v s := {| log := log s; excs := excs s; stack := stack s; dets := dets s; tbgen := tbgen s; cells := cells s; attrs := attrs s; onexc := onexc s; force := v; uh := uh s; tr := tr s |}.
Definition set_uh v s := {| log := log s; excs := excs s; stack := stack s; dets := dets s; tbgen := tbgen s; cells := cells s; attrs := attrs s; onexc := onexc s; force := force s; uh := v; tr := tr s |}.
Definition set_tr v s := {| log := log s; excs := excs s; stack := stack s; dets := dets s; tbgen := tbgen s; cells := cells s; attrs := attrs s; onexc := onexc s; force := force s; uh := uh s; tr := v |}.

Definition add_log (l : list lev) s := set_log (log s ++ l) s.
Definition add_tr (l : list tev) s := set_tr (tr s ++ l) s.
Definition push (k : cleanup) s := set_stack (k :: stack s) s.          (* addCleanup *)
Definition add_detail (n : dname) (c : content) s := set_dets (dput n c (dets s)) s.
Definition add_detail_unique (n : dname) (c : content) s := add_detail (unique_name n (dets s)) c s.

(* association lists for the cells and for vars(scratch): assignment replaces in place or appends *)
Fixpoint aget (k : nat) (l : list (nat * nat)) : option nat :=
  match l with [] => None | (j, v) :: r => if Nat.eqb k j then Some v else aget k r end.
Fixpoint aput (k v : nat) (l : list (nat * nat)) : list (nat * nat) :=
  match l with
  | [] => [(k, v)]
  | (j, w) :: r => if Nat.eqb k j then (j, v) :: r else (j, w) :: aput k v r
  end.
Fixpoint adel (k : nat) (l : list (nat * nat)) : list (nat * nat) :=
  match l with [] => [] | (j, w) :: r => if Nat.eqb k j then r else (j, w) :: adel k r end.

(* The patched objects: an instance, its class Sub and Sub's base class Base.  Key 3*n + l (below 30) is the
   ordinary attribute number n in the namespace of the instance (l = 0), of Sub (l = 1), of Base (l = 2):
   attribute lookup falls back from the instance to Sub to Base.  Keys from 30 are attributes of the
   instance served by a data descriptor of its class (a property with setter and deleter, a slot
   inherited from a base class with __slots__): no fallback.  [attrs] holds the namespaces themselves
   (for a property or slot: the value behind it). *)
Definition parent (k : nat) : option nat :=
  if Nat.ltb k 30 then (if Nat.ltb (Nat.modulo k 3) 2 then Some (S k) else None) else None.
(* getattr(obj, name, <marker>) *)
Definition getattr (k : nat) (l : list (nat * nat)) : option nat :=
  match aget k l with
  | Some v => Some v
  | None => match parent k with
            | None => None
            | Some k1 => match aget k1 l with
                         | Some v => Some v
                         | None => match parent k1 with None => None | Some k2 => aget k2 l end
                         end
            end
  end.
(* the namespaces in a fixed order of the keys the harness uses (Python leaves the order across objects open) *)
Definition universe : list nat := seq 0 9 ++ seq 30 6.
Definition normal (l : list (nat * nat)) : list (nat * nat) :=
  flat_map (fun k => match aget k l with Some v => [(k, v)] | None => [] end) universe.

Definition cell (loc : nat) (s : st) : nat := match aget loc (cells s) with Some v => v | None => 0 end.
Definition snapshot (s : st) (c : content) : content :=        (* _copy_content *)
  match c with CLazy loc => CSnap (cell loc s) | _ => c end.
Definition resolve (s : st) (c : content) : ocontent :=        (* bytes read when the result gets the dict *)
  match c with
  | CLazy loc => OBytes (cell loc s) | CSnap v => OBytes v
  | CTb => OTb | CStack => OStack | CReason r => OReason r
  end.

(* gather_details(source, target), testcase.py:149-162 *)
Definition gather (src : details) (s : st) : st :=
  fold_left (fun s nc => add_detail (unique_name (fst nc) (dets s)) (snapshot s (snd nc)) s) src s.

(* _report_traceback *)
Definition report_traceback (s : st) : st :=
  let '(lab, nxt) := tb_label (length (dets s)) (tbgen s) n_traceback (dets s) in
  add_detail lab CTb (set_tbgen nxt s).

(* onException, testcase.py:589-601 *)
Definition on_exception (e : exc) (s : st) : st :=
  let s1 := if no_traceback (cls_of e) then s else report_traceback s in
  add_tr (map (fun h => THandler h (cls_of e)) (onexc s1)) s1.

(* _got_user_exception *)
Definition got_exception (e : exc) (s : st) : st :=
  fold_left (fun s x => let s1 := on_exception x s in set_excs (excs s1 ++ [x]) s1) (flatten e) s.

(* ------------------------------------------------------------------ *)
(* user code                                                            *)
(* ------------------------------------------------------------------ *)
(* a dict of details written as the sequence of its assignments (a mismatch's get_details(), a
   fixture's addDetail calls): a later assignment to the same name replaces the earlier *)
Fixpoint nl_put (n : dname) (loc : nat) (l : list (dname * nat)) : list (dname * nat) :=
  match l with
  | [] => [(n, loc)]
  | (m, x) :: r => if dname_eqb n m then (m, loc) :: r else (m, x) :: nl_put n loc r
  end.
Definition nl_dict (l : list (dname * nat)) : list (dname * nat) :=
  fold_left (fun d nl => nl_put (fst nl) (snd nl) d) l [].

(* _matchHelper: every detail of the mismatch under a unique name *)
Definition add_mismatch (mm : list (dname * nat)) (s : st) : st :=
  fold_left (fun s nl => add_detail_unique (fst nl) (CLazy (snd nl)) s) (nl_dict mm) s.

(* CallMany.__call__: the functions run latest first, every one of them; Exception-derived
   errors are collected *)
Definition run_fx_cleanups (cs : list (nat * option exc)) (s : st) : st * list exc :=
  fold_left (fun se c => (add_log [LTok (fst c)] (fst se),
                          match snd c with Some e => snd se ++ [e] | None => snd se end))
            (rev cs) (s, []).
(* gather_details(fixture.getDetails(), ...) copies the details one after the other, evaluating each:
   the ones before the first whose evaluation raises get through, then that exception comes out *)
Definition fx_good (fx : fixture) : list (dname * nat) :=
  match fx_bad fx with
  | Some (k, _) => firstn k (nl_dict (fx_details fx))
  | None => nl_dict (fx_details fx)
  end.
Definition fx_eval_raise (fx : fixture) : option exc :=
  match fx_bad fx with
  | Some (k, g) => if Nat.ltb k (length (nl_dict (fx_details fx))) then Some g else None
  | None => None
  end.
Definition fx_source (fx : fixture) : details :=
  map (fun nl => (fst nl, CLazy (snd nl))) (fx_good fx).

(* useFixture, testcase.py:721-758, over fixtures.Fixture.setUp / cleanUp *)
Definition use_fixture (fx : fixture) (s : st) : st * option exc :=
  let s1 := add_log [LTok (fx_tok fx)] s in
  match fx_fail fx with
  | None =>
      (* addCleanup(fixture.cleanUp); addCleanup(gather_details, fixture.getDetails(), self.getDetails()) *)
      (push (KGather fx) (push (KFxClean fx) s1), None)
  | Some e =>
      match fx_eval_raise fx with
      | Some g =>
          (* a detail cannot be evaluated.  Old protocol: gather_details raises, useFixture reports the
             traceback of what setUp raised and lets the new exception out.  New protocol:
             Fixture.setUp's own gather_details raises first (the fixture's cleanups are not run by
             it), useFixture finds _details still there, gathers - which raises again -, reports
             the traceback of the first and lets the second out *)
          (report_traceback (gather (fx_source fx) s1), Some g)
      | None =>
      if fx_old fx then
        (* the old protocol: _details is still there; gather it, re-raise what setUp raised *)
        (gather (fx_source fx) s1, Some e)
      else
        (* Fixture.setUp: materialise the details, clean up, raise
           MultipleExceptions(err, *cleanup_errors, SetupError(details)); useFixture gathers
           the details carried by the SetupError and re-raises *)
        let snap := map (fun nc => (fst nc, snapshot s1 (snd nc))) (fx_source fx) in
        let '(s2, errs) := run_fx_cleanups (fx_cleanups fx) s1 in
        (gather snap s2, Some (Multi (e :: errs ++ [Exc CSetupError None])))
      end
  end.

(* fixture.cleanUp() with raise_first=True *)
Definition fx_cleanup (cs : list (nat * option exc)) (s : st) : st * option exc :=
  let '(s1, errs) := run_fx_cleanups cs s in
  (s1, match errs with [] => None | [e] => Some e | _ => Some (Multi errs) end).

(* one statement of a stage or cleanup body: the new state and what it raised *)
Definition exec_act (a : act) (s : st) : st * option exc :=
  match a with
  | ADetail n loc => (add_detail n (CLazy loc) s, None)
  | ASetCell loc v => (set_cells (aput loc v (cells s)) s, None)
  | AExpect mm =>
      let s1 := add_mismatch mm s in
      (set_force true (add_detail_unique n_failed_expectation CStack s1), None)
  | AAssert mm => (add_mismatch mm s, Some (Exc CMismatch None))
  | ACleanup t body => (push (KUser t body) s, None)
  | APatch a v =>
      (* MonkeyPatcher.patch (monkey.py, with fix cb3bba9 for F25): what restore() puts back is the value
         the target holds ITSELF - getattr's answer, unless that was only inherited and setattr has now
         shadowed it, in which case (as for a missing attribute) the marker: restore deletes the shadow.
         For a property or slot of the instance getattr's answer is the cell's own value.  setattr;
         addCleanup(restore) *)
      (push (KRestore a (aget a (attrs s))) (add_log [LSet a v] (set_attrs (aput a v (attrs s)) s)), None)
  | AFixture fx => use_fixture fx s
  | AOnExc h => (set_onexc (onexc s ++ [h]) s, None)
  | AForce => (set_force true s, None)
  | AInsertHandler c o => (set_uh ((c, o) :: uh s) s, None)
  | AExpectFailure r p =>
      (* expectFailure, testcase.py:534-567 *)
      let s1 := add_detail n_reason (CReason (Some r)) s in
      match p with
      | None => (s1, Some (Exc CUx (Some r)))
      | Some e => if isinstance e CFail then (report_traceback s1, Some (Exc CXFail None)) else (s1, Some e)
      end
  | APeek _ => (s, None)
  | ARaise e => (s, Some e)
  end.

Fixpoint exec_acts (l : list act) (s : st) : st * option exc :=
  match l with
  | [] => (s, None)
  | a :: r => match exec_act a s with
              | (s1, None) => exec_acts r s1
              | (s1, Some e) => (s1, Some e)
              end
  end.

(* an entry of _cleanups being called *)
Definition run_cleanup (k : cleanup) (s : st) : st * option exc :=
  match k with
  | KUser t body => exec_acts body (add_log [LTok t] s)
  | KRestore a old =>
      (match old with
       | Some v => add_log [LSet a v] (set_attrs (aput a v (attrs s)) s)
       | None => add_log [LDel a] (set_attrs (adel a (attrs s)) s)
       end, None)
  | KGather fx => (gather (fx_source fx) s, fx_eval_raise fx)
  | KFxClean fx => fx_cleanup (fx_cleanups fx) s
  end.

(* _run_user(fn): the state after, and whether it returned exception_caught *)
Definition run_user (r : st * option exc) : st * bool :=
  match r with
  | (s, None) => (s, false)
  | (s, Some e) => (got_exception e s, true)
  end.

(* _run_cleanups, runtest.py:171-186.  Third component: the fuel ran out with cleanups pending. *)
Fixpoint run_cleanups (fuel : nat) (s : st) : st * bool * bool :=
  match stack s with
  | [] => (s, false, false)
  | k :: rest =>
      match fuel with
      | 0 => (s, false, true)
      | S f =>
          let '(s1, failed) := run_user (run_cleanup k (set_stack rest s)) in
          let '(s2, failing, oof) := run_cleanups f s1 in
          (s2, failed || failing, oof)
      end
  end.

(* TestCase._run_setup / _run_teardown: the user's method, then the upcall check *)
Definition run_method (m : nat * list act) (upcalls : bool) (s : st) : st * option exc :=
  match exec_acts (snd m) (add_log [LTok (fst m)] s) with
  | (s1, None) => (s1, if upcalls then None else Some (Exc CValueError None))
  | r => r
  end.

(* TestCase._run_test_method, through the _expectedFailure wrapper when the method is decorated *)
Definition run_test_method (p : prog) (s : st) : st * option exc :=
  let r := exec_acts (snd (p_body p)) (add_log [LTok (fst (p_body p))] s) in
  if p_xfail p then
    match r with
    | (s1, None) => (s1, Some (Exc CUx None))
    | (s1, Some e) => if isinstance e CException then (report_traceback s1, Some (Exc CXFail None))
                      else (s1, Some e)
    end
  else r.

Definition current_details (s : st) : list (dname * ocontent) :=
  map (fun nc => (fst nc, resolve s (snd nc))) (dets s).

(* _run_core, runtest.py:123-169 *)
Definition run_core (p : prog) (fuel : nat) (s : st) : st * bool :=
  match p_skip p with
  | Some r => (add_tr [TOut OSkip [(n_reason, OReason (Some r))]] s, false)
  | None =>
      let '(s1, f1) := run_user (run_method (p_setup p) (p_up_setup p) s) in
      if f1 then
        (* the test method is not run; an expectation that failed in setUp or in one of the
           cleanups still fails the test (fix F21) *)
        let '(s2, _, oof) := run_cleanups fuel s1 in
        (if force s2 then got_exception (Exc CFail None) s2 else s2, oof)
      else
        let '(s2, f2) := run_user (run_test_method p s1) in
        let '(s3, f3) := run_user (run_method (p_teardown p) (p_up_teardown p) s2) in
        let '(s4, f4, oof) := run_cleanups fuel s3 in
        let '(s5, f5) := if force s4 then (got_exception (Exc CFail None) s4, true) else (s4, false) in
        (if f2 || f3 || f4 || f5 then s5 else add_tr [TOut OSuccess (current_details s5)] s5, oof)
  end.

(* the handler called for the chosen exception: _report_* *)
Definition call_handler (h : handler) (e : exc) (s : st) : st :=
  let s1 := if h_reason h then add_detail n_reason (CReason (arg_of e)) s else s in
  match h_out h with
  | Some o => add_tr [TOut o (current_details s1)] s1
  | None => s1
  end.

(* ------------------------------------------------------------------ *)
(* the RunTest factory of the case: how TestCase.run gets its RunTest                                   *)
(* (testcase.py: run_tests_with, the runTest= constructor argument, @run_test_with; TestCase.run     *)
(* calls factory(case, exception_handlers, last_resort=_report_error) and, when that raises            *)
(* TypeError, factory(case, exception_handlers))                                                       *)
(* ------------------------------------------------------------------ *)
(* what the factory is; every one of them ends up constructing a plain testtools.RunTest *)
Inductive factory :=
  | RT_RunTest       (* testtools.RunTest itself *)
  | RT_SubExplicit   (* subclass, __init__(self, case, handlers=None, last_resort=None) *)
  | RT_SubStar       (* subclass, __init__(self, case, *args, **kwargs), everything passed on *)
  | RT_SubKwStar     (* subclass, __init__(self, case, *args, tag=0, **kwargs): an option of its own *)
  | RT_FnExplicit    (* def factory(case, handlers=None, last_resort=None) *)
  | RT_FnStar        (* def factory(case, *args, **kwargs) *)
  | RT_FnKwOnly      (* def factory(case, handlers=None, *, last_resort=None) *)
  | RT_FnKwargs      (* def factory(case, handlers=None, **kwargs) *)
  | RT_Partial       (* functools.partial(RunTest) *)
  | RT_Callable      (* an object whose __call__(self, case, handlers=None, last_resort=None) builds the RunTest *)
  | RT_BoundMethod   (* a bound method maker.make(case, handlers=None, last_resort=None) *)
  | RT_OldFn         (* written for the API before last_resort: def factory(case, handlers=None) *)
  | RT_OldSub        (* subclass, __init__(self, case, handlers=None) *)
  | RT_OldFnKw       (* def factory(case, handlers=None, tag=0) *)
  | RT_FnRenamed.    (* def factory(case, handlers=None, fallback=None): the third parameter has another name *)
(* how it is installed *)
Inductive via :=
  | VDefault       (* not at all: TestCase.run_tests_with is RunTest *)
  | VClass         (* class attribute run_tests_with *)
  | VCtor          (* TestCase(..., runTest=factory) *)
  | VDeco          (* @run_test_with(factory) on the test method *)
  | VDecoKw.       (* @run_test_with(factory, tag=3) *)
Record runner := { r_factory : factory; r_via : via }.
Definition default_runner : runner := {| r_factory := RT_RunTest; r_via := VDefault |}.
(* can the factory be called with the keyword last_resort=...?  If not the call raises TypeError
   and both TestCase.run and the run_test_with wrapper call it again without it (the backwards-compatibility
   path for factories written before that argument existed). *)
Definition accepts_last_resort (sh : factory) : bool :=
  match sh with RT_OldFn | RT_OldSub | RT_OldFnKw | RT_FnRenamed => false | _ => true end.
(* the handler of last resort of the RunTest that is built, as what it reports: TestCase._report_error either
   way - handed over as last_resort= in the call, or, on the fallback path, installed on the runner the
   factory returned (_install_last_resort, fix F27; before it such a RunTest kept RunTest's own default,
   which reports nothing: run_prepared_with None below) *)
Definition runner_last_resort (r : runner) : option outcome :=
  if accepts_last_resort (r_factory r) then last_resort else last_resort.

(* _run_prepared_result, runtest.py:96-121: the final state, what propagates, out-of-fuel;
   [lr] is what the RunTest's handler of last resort reports *)
Definition run_prepared_with (lr : option outcome) (p : prog) (fuel : nat) (s : st) : st * option exc * bool :=
  let s0 := set_excs [] (add_tr [TStart] s) in
  let '(s1, oof) := run_core p fuel s0 in
  let '(s2, propagated) :=
    match choose (handlers_of (uh s1)) (excs s1) with
    | None => (s1, None)
    | Some e => match lookup (handlers_of (uh s1)) e with
                | Some h => (call_handler h e s1, None)
                | None => (match lr with
                           | Some o => add_tr [TOut o (current_details s1)] s1
                           | None => s1
                           end, Some e)
                end
    end in
  (add_tr [TStop] s2, propagated, oof).
(* with the RunTest TestCase.run builds by default *)
Definition run_prepared (p : prog) (fuel : nat) (s : st) : st * option exc * bool :=
  run_prepared_with last_resort p fuel s.

(* TestCase._reset *)
Definition reset (s : st) : st := set_tbgen 0 (set_dets [] (set_stack [] s)).

(* ------------------------------------------------------------------ *)
(* sizes: the fuel a program needs                                      *)
(* ------------------------------------------------------------------ *)
Fixpoint act_size (a : act) : nat :=
  match a with
  | ACleanup _ body => S ((fix go (l : list act) : nat := match l with [] => 0 | x :: r => act_size x + go r end) body)
  | AFixture _ => 2
  | _ => 1
  end.
Definition acts_size (l : list act) : nat := fold_right (fun a n => act_size a + n) 0 l.
Definition prog_size (p : prog) : nat :=
  acts_size (snd (p_setup p)) + acts_size (snd (p_body p)) + acts_size (snd (p_teardown p)).

(* a fresh instance: p_handlers are inserted right after construction *)
Definition init (p : prog) (attrs0 : list (nat * nat)) : st :=
  {| log := []; excs := []; stack := []; dets := []; tbgen := 0; cells := []; attrs := attrs0;
     onexc := []; force := false; uh := p_handlers p; tr := [] |}.

(* TestCase.run(result) on an instance in state s *)
Definition run_from_with (lr : option outcome) (p : prog) (s : st) : st * option exc * bool :=
  run_prepared_with lr p (S (prog_size p)) (reset s).
Definition run_from (p : prog) (s : st) : st * option exc * bool := run_from_with last_resort p s.
(* ... of a case whose RunTest comes from the factory [r] *)
Definition run_from_runner (r : runner) (p : prog) (s : st) : st * option exc * bool :=
  run_from_with (runner_last_resort r) p s.
Definition run (p : prog) (attrs0 : list (nat * nat)) : st * option exc * bool := run_from p (init p attrs0).

(* ------------------------------------------------------------------ *)
(* delivery to the result flavours (testresult/real.py ExtendedToOriginalDecorator,
   ExtendedToStreamDecorator): which outcome method the decorated result receives *)
(* ------------------------------------------------------------------ *)
Inductive flavour := F26 | F27 | FExtended | FTwisted | FTestResult | FStream | FNone.
Definition deliver (f : flavour) (o : outcome) : outcome :=
  match f, o with
  | F26, OSkip => OSuccess       (* no addSkip: addSuccess *)
  | F26, OXFail => OSuccess      (* no addExpectedFailure: addSuccess *)
  | F26, OUx => OFail            (* no addUnexpectedSuccess: addFailure *)
  | FStream, OErr => OFail       (* addError and addFailure both send test_status='fail' *)
  | _, _ => o
  end.
(* stopTest sends nothing to a StreamResult *)
Definition has_stop (f : flavour) : bool := match f with FStream => false | _ => true end.
