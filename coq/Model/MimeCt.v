(* Content types: ContentType (content_type.py:6-39), its rendering to a MIME
   string (__repr__, content_type.py:30-39) and the way back,
   testresult/real.py:_make_content_type (755-793), which hands the string to
   email.message.EmailMessage.  The email header parser is modelled for the
   fragment that __repr__ can produce from a content type in [mime_dom]:
       type "/" subtype *( "; " attribute "=" DQUOTE *qcontent DQUOTE )
   following email/_header_value_parser.py (parse_content_type_header,
   parse_mime_parameters, get_parameter, get_attribute, get_bare_quoted_string,
   _get_ptext_to_endchars) and email/message.py (get_content_type,
   _splitparam).  Anything the fragment does not cover makes the model answer
   [Raised OutOfModel]; the roundtrip theorem shows this cannot happen for
   rendered content types of the domain.  Executable definitions only.

   Strings are lists of bytes (N): ASCII for everything the parser inspects;
   bytes >= 128 (UTF-8 of non-ASCII text) are passed through opaquely. *)
From Coq Require Import String.
From Coq Require Import Ascii.
From TT Require Import Lib.Base Lib.Sort.
Local Open Scope N_scope.

Definition str := list N.
Definition sb (s : string) : str := map N_of_ascii (list_ascii_of_string s).
Definition nb (l : list nat) : str := map N.of_nat l.
Definition str_eqb : str -> str -> bool := list_eqb N.eqb.

Definition dict := list (str * str).     (* insertion-ordered, keys pairwise distinct *)

Record ctype := { ct_type : str; ct_sub : str; ct_params : dict }.

(* ---------------- dict helpers ---------------- *)
Fixpoint lookup (k : str) (d : dict) : option str :=
  match d with
  | [] => None
  | (k', v) :: r => if str_eqb k' k then Some v else lookup k r
  end.

(* d[k] = v : replaces in place, appends when new *)
Fixpoint dict_set (d : dict) (k v : str) : dict :=
  match d with
  | [] => [(k, v)]
  | (k', v') :: r => if str_eqb k' k then (k', v) :: r else (k', v') :: dict_set r k v
  end.

(* dict.__eq__ for dicts with distinct keys *)
Definition dict_eqb (a b : dict) : bool :=
  Nat.eqb (length a) (length b)
  && forallb (fun kv => option_eqb str_eqb (lookup (fst kv) b) (Some (snd kv))) a.

(* ContentType.__eq__, content_type.py:25-28 *)
Definition ct_eqb (a b : ctype) : bool :=
  str_eqb (ct_type a) (ct_type b) && str_eqb (ct_sub a) (ct_sub b) && dict_eqb (ct_params a) (ct_params b).

(* ---------------- __repr__ ---------------- *)
(* Python compares str by code point; on UTF-8 bytes this is bytewise order *)
Fixpoint str_leb (a b : str) : bool :=
  match a, b with
  | [], _ => true
  | _ :: _, [] => false
  | x :: a', y :: b' => if x <? y then true else if y <? x then false else str_leb a' b'
  end.

Definition DQ : N := 34.    (* the double quote *)
Definition item (kv : str * str) : str := fst kv ++ sb "=" ++ [DQ] ++ snd kv ++ [DQ].   (* f'{k}="{v}"' *)

Definition join (sep : str) (l : list str) : str :=
  match l with
  | [] => []
  | x :: r => x ++ flat_map (fun y => sep ++ y) r
  end.

Definition render (ct : ctype) : str :=
  ct_type ct ++ sb "/" ++ ct_sub ct ++
  match ct_params ct with
  | [] => []
  | ps => sb "; " ++ join (sb "; ") (isort str_leb (map item ps))
  end.

(* ---------------- character classes of email._header_value_parser ---------------- *)
Definition is_wsp (c : N) : bool := (c =? 32) || (c =? 9).                       (* WSP *)
Definition in_str (c : N) (s : str) : bool := existsb (N.eqb c) s.
Definition token_end (c : N) : bool := in_str c (sb "()<>@,:;\[]/?=") || (c =? DQ) || is_wsp c.   (* TOKEN_ENDS *)
Definition attr_end (c : N) : bool := token_end c || in_str c (sb "*'%").                          (* ATTRIBUTE_ENDS *)

Fixpoint span (p : N -> bool) (s : str) : str * str :=
  match s with
  | [] => ([], [])
  | c :: r => if p c then let (a, b) := span p r in (c :: a, b) else ([], s)
  end.

(* str.strip() / str.lower() on the ASCII range *)
Definition is_space (c : N) : bool := ((9 <=? c) && (c <=? 13)) || ((28 <=? c) && (c <=? 32)).
Definition lstrip (s : str) : str := snd (span is_space s).
Definition strip (s : str) : str := rev (lstrip (rev (lstrip s))).
Definition lower1 (c : N) : N := if (65 <=? c) && (c <=? 90) then c + 32 else c.
Definition lower (s : str) : str := map lower1 s.

Fixpoint count_char (c : N) (s : str) : nat :=
  match s with [] => O | x :: r => Nat.add (if x =? c then 1%nat else O) (count_char c r) end.

(* s.split(c) *)
Fixpoint split_on (c : N) (s : str) : list str :=
  match s with
  | [] => [[]]
  | x :: r => if x =? c then [] :: split_on c r
              else match split_on c r with
                   | [] => [[x]]            (* unreachable: split_on never returns [] *)
                   | h :: t => (x :: h) :: t
                   end
  end.

(* ---------------- get_bare_quoted_string after the opening quote ----------------
   A backslash makes the next character literal (whatever it is, the closing
   quote included) and disappears; a backslash at the end of a fragment (before
   white space or at the end of the header) just disappears.  An unescaped
   quote closes the string; the end of the header closes it too ("end of header
   inside quoted string").  Result: the value and what follows the closing quote.
   RFC 2047 encoded words ("=?" at the start of a fragment) are not modelled:
   values containing "=?" are outside [mime_dom]. *)
Fixpoint bqs (esc : bool) (acc : str) (s : str) : str * str :=
  match s with
  | [] => (rev acc, [])
  | c :: r =>
      if esc then bqs false (c :: acc) r
      else if c =? 92 then bqs true acc r
      else if c =? DQ then (rev acc, r)
      else bqs false (c :: acc) r
  end.

Inductive perr := OutOfModel | ExceptionCantParse.

(* parse_mime_parameters / get_parameter on "attribute=quoted-string" entries
   separated by ';'.  fuel: one unit per parameter. *)
Fixpoint parse_params (fuel : nat) (s : str) : option dict :=
  match fuel with
  | O => None
  | S f =>
      match s with
      | [] => Some []
      | _ =>
          let s1 := snd (span is_wsp s) in                          (* get_attribute: leading white space *)
          let (name, s2) := span (fun c => negb (attr_end c)) s1 in (* get_attrtext *)
          match name, s2 with
          | _ :: _, 61 :: 34 :: s3 =>                               (* '=' then get_value -> get_quoted_string *)
              let (v, s4) := bqs false [] s3 in
              match s4 with
              | [] => Some [(name, v)]
              | 59 :: s5 => match parse_params f s5 with             (* ';' *)
                            | Some ps => Some ((name, v) :: ps)
                            | None => None
                            end
              | _ => None
              end
          | _, _ => None
          end
      end
  end.

(* parse_content_type_header: the parameters of "token/token[;params]" *)
Definition header_params (s : str) : option dict :=
  let (t, r1) := span (fun c => negb (token_end c)) s in
  match t, r1 with
  | _ :: _, 47 :: r2 =>
      let (u, r3) := span (fun c => negb (token_end c)) r2 in
      match u, r3 with
      | _ :: _, [] => Some []
      | _ :: _, 59 :: r4 => parse_params (S (length r4)) r4
      | _, _ => None
      end
  | _, _ => None
  end.

(* MimeParameters.params: a repeated name keeps its first value *)
Definition first_wins (ps : dict) : dict :=
  fold_left (fun d kv => match lookup (fst kv) d with Some _ => d | None => d ++ [kv] end) ps [].

(* ParameterizedMIMEHeader.parse: {name.lower(): value for name, value in params} *)
Definition lowered (ps : dict) : dict :=
  fold_left (fun d kv => dict_set d (lower (fst kv)) (snd kv)) ps [].

Definition s_charset : str := sb "charset".
Definition cut_comma (v : str) : str := fst (span (fun c => negb (c =? 44)) v).
Definition fix_charset (d : dict) : dict :=
  map (fun kv => if str_eqb (fst kv) s_charset then (fst kv, cut_comma (snd kv)) else kv) d.

(* Message.get_content_type on the header text: what precedes the first ';',
   stripped and lower-cased; "text/plain" unless it has exactly one '/' *)
Definition get_content_type (s : str) : str :=
  let head := lower (strip (fst (span (fun c => negb (c =? 59)) s))) in
  if Nat.eqb (count_char 47 head) 1 then head else sb "text/plain".

(* _make_content_type, real.py:755-793 *)
Definition make_content_type (s : str) : res ctype perr :=
  match header_params s with
  | None => Raised OutOfModel
  | Some ps =>
      let full := get_content_type s in
      let full := if str_eqb full (sb "*") then sb "*/*" else full in
      match split_on 47 full with
      | [p; q] =>
          Ok {| ct_type := strip p; ct_sub := strip q;
                ct_params := fix_charset (lowered (first_wins ps)) |}
      | _ => Raised ExceptionCantParse
      end
  end.

(* ---------------- the modelled domain, and the content types that survive ---------------- *)
Definition printable (c : N) : bool := (33 <=? c) && (c <=? 126).
Definition token_char (c : N) : bool := printable c && negb (token_end c).
Definition attr_char (c : N) : bool := printable c && negb (attr_end c).
Definition is_upper (c : N) : bool := (65 <=? c) && (c <=? 90).

Fixpoint has_infix (pat s : str) : bool :=
  match s with
  | [] => match pat with [] => true | _ => false end
  | _ :: r => list_eqb N.eqb pat (firstn (length pat) s) || has_infix pat r
  end.

(* value characters: TAB, printable ASCII and space except the quote, bytes >= 128 *)
Definition value_char (c : N) : bool := ((c =? 9) || ((32 <=? c) && (c <=? 126)) || ((128 <=? c) && (c <=? 255))) && negb (c =? DQ).

(* does the text end in an odd number of backslashes (which would escape the closing quote)? *)
Fixpoint odd_bs_end (esc : bool) (s : str) : bool :=
  match s with
  | [] => esc
  | c :: r => if esc then odd_bs_end false r else odd_bs_end (c =? 92) r
  end.

Fixpoint distinct (l : list str) : bool :=
  match l with [] => true | x :: r => negb (existsb (str_eqb x) r) && distinct r end.

Definition token_ok (s : str) : bool :=
  negb (Nat.eqb (length s) 0) && forallb (fun c => token_char c && negb (is_upper c)) s.
Definition name_ok (s : str) : bool := negb (Nat.eqb (length s) 0) && forallb attr_char s.
Definition value_ok (v : str) : bool :=
  forallb value_char v
  && negb (has_infix (sb "=?") v)                       (* RFC 2047 look-alikes: not modelled *)
  && negb (odd_bs_end false v)                          (* escaped closing quote: not modelled *)
  && negb (has_infix [194; 133] v)                 (* U+0085, U+2028, U+2029: the email package *)
  && negb (has_infix [226; 128; 168] v)            (*   refuses them as line separators         *)
  && negb (has_infix [226; 128; 169] v).

(* the content types the model speaks about *)
Definition mime_dom (ct : ctype) : bool :=
  token_ok (ct_type ct) && token_ok (ct_sub ct)
  && forallb (fun kv => name_ok (fst kv) && value_ok (snd kv)) (ct_params ct)
  && distinct (map fst (ct_params ct)).

(* ... and those of them that survive render + _make_content_type *)
Definition wf_ct (ct : ctype) : bool :=
  mime_dom ct
  && forallb (fun kv => forallb (fun c => negb (is_upper c)) (fst kv)           (* lower-case names *)
                        && negb (in_str 92 (snd kv))                             (* no backslash *)
                        && (negb (str_eqb (fst kv) s_charset) || negb (in_str 44 (snd kv))))  (* charset without ',' *)
             (ct_params ct).
