(* Model of testtools/matchers: _basic.py, _const.py, _exception.py (leaves),
   _higherorder.py, _datastructures.py, _dict.py (combinators).
   Executable definitions only.

   Conventions.  A matcher is a term; match() is [match_], returning None
   (matched) or Some mismatch.  Every combinator is written in two steps:
   (1) the verdicts of the children, computed by a structural nested fixpoint
   (the model is pure, so computing them eagerly is unobservable), (2) a plain
   function over those verdicts that transliterates the Python loop with its
   accumulator, early returns and first_only.  Abstract leaves (regex, doctest,
   filesystem ...) get their verdict from the parameter [leafsem];
   MatchesSetwise iterates a set of matchers, so its iteration order is the
   parameter [rank] (set id -> child index -> position in the iteration).

   Values.  Numbers come in Python's three flavours int, bool and float
   (floats as half-integers, enough for 0.0, 0.5, 1.0 ...): they are == and <
   across the flavours (1 == True == 1.0), denote the same dict key ([key_of]),
   but differ for isinstance, for `in` on bytes and as falsy/truthy objects -
   so every falsy Python value (0, False, 0.0, '', b'', None, [], {}) has a
   representative wherever a value can occur.  Frozensets of ints stand for
   values whose < is only a partial order (sorted() cannot canonicalise them). *)
From TT Require Import Lib.Base Lib.Sort.

Definition str := list N.          (* code points of a str / byte values of a bytes *)
Definition cls := nat.             (* exception classes, see [parent] *)

Inductive key := KInt (z : Z) | KStr (s : str).

Inductive val :=
| VInt (z : Z)
| VBool (b : bool)                          (* True / False: an int subclass, == 1 / 0 *)
| VFloat (h : Z)                            (* the float h/2 (0.0, 0.5, 1.0, ...); == the int h/2 when h is even *)
| VStr (s : str)
| VBytes (b : str)
| VNone
| VSet (e : list Z)                         (* a frozenset of ints, elements listed in increasing order without repetition *)
| VList (l : list val)
| VDict (kvs : list (key * val))            (* insertion order; keys unique *)
| VRec (id : nat) (attrs : list (nat * val)) (* an object with attributes; identity = id *)
| VExc (c : cls) (args : list val)          (* an exc_info tuple (type, value, traceback) *)
| VExcI (c : cls) (args : list val)         (* the exception instance c( *args ) *)
| VRet (r : val)                            (* a callable that returns r *)
| VRaise (c : cls) (args : list val).       (* a callable that raises c( *args ) *)

(* ---------- exception classes ---------- *)
(* 0 BaseException, 1 Exception, 2 ValueError, 3 LookupError, 4 KeyError,
   5 KeyboardInterrupt, 6 SystemExit, 7 a user subclass of ValueError,
   8 a user subclass of BaseException *)
Definition parent (c : cls) : option cls :=
  match c with
  | 1 => Some 0 | 2 => Some 1 | 3 => Some 1 | 4 => Some 3
  | 5 => Some 0 | 6 => Some 0 | 7 => Some 2 | 8 => Some 0
  | _ => None
  end.
Fixpoint issub_fuel (n : nat) (c d : cls) : bool :=
  Nat.eqb c d ||
  match n with
  | 0 => false
  | S n' => match parent c with Some p => issub_fuel n' p d | None => false end
  end.
Definition issub (c d : cls) : bool := issub_fuel 8 c d.
Definition is_user (c : cls) : bool := issub c 1.       (* isinstance(exc, Exception) *)

(* ---------- Python operators on the universe ---------- *)
Definition str_eqb : str -> str -> bool := list_eqb N.eqb.
Definition key_eqb (a b : key) : bool :=
  match a, b with
  | KInt x, KInt y => Z.eqb x y
  | KStr x, KStr y => str_eqb x y
  | _, _ => false
  end.
Fixpoint lookup {A} (k : key) (l : list (key * A)) : option A :=
  match l with
  | [] => None
  | (k', x) :: r => if key_eqb k k' then Some x else lookup k r
  end.
Fixpoint getattr {A} (a : nat) (l : list (nat * A)) : option A :=
  match l with
  | [] => None
  | (a', x) :: r => if Nat.eqb a a' then Some x else getattr a r
  end.
Definition has_key {A} (k : key) (l : list (key * A)) : bool :=
  match lookup k l with Some _ => true | None => false end.

(* numbers (int, bool, float) compare by value across the three types: twice the value *)
Definition num2 (v : val) : option Z :=
  match v with
  | VInt z => Some (2 * z)%Z
  | VBool b => Some (if b then 2 else 0)%Z
  | VFloat h => Some h
  | _ => None
  end.
(* the dict key a hashable value denotes: 1, True and 1.0 are the same key *)
Definition key_of (v : val) : option key :=
  match v with
  | VInt z => Some (KInt z)
  | VBool b => Some (KInt (if b then 1 else 0))
  | VFloat h => if Z.even h then Some (KInt (Z.div2 h)) else None
  | VStr s => Some (KStr s)
  | _ => None
  end.

(* == *)
Fixpoint veq (a b : val) : bool :=
  match a, b with
  | (VInt _ | VBool _ | VFloat _), (VInt _ | VBool _ | VFloat _) =>
      match num2 a, num2 b with Some x, Some y => Z.eqb x y | _, _ => false end
  | VStr x, VStr y => str_eqb x y
  | VBytes x, VBytes y => str_eqb x y
  | VNone, VNone => true
  | VSet x, VSet y => list_eqb Z.eqb x y
  | VList x, VList y =>
      (fix go (x y : list val) : bool :=
         match x, y with
         | [], [] => true
         | a' :: x', b' :: y' => veq a' b' && go x' y'
         | _, _ => false
         end) x y
  | VDict x, VDict y =>
      Nat.eqb (length x) (length y) &&
      (fix go (x : list (key * val)) : bool :=
         match x with
         | [] => true
         | (k, a') :: x' => match lookup k y with Some b' => veq a' b' | None => false end && go x'
         end) x
  | VRec i _, VRec j _ => Nat.eqb i j          (* default __eq__: identity *)
  | _, _ => false
  end.

(* is *)
Definition vis (a b : val) : bool :=
  match a, b with
  | VNone, VNone => true
  | VRec i _, VRec j _ => Nat.eqb i j
  | _, _ => false
  end.

(* < on sequences of code points / bytes *)
Fixpoint str_ltb (a b : str) : bool :=
  match a, b with
  | _, [] => false
  | [], _ :: _ => true
  | x :: a', y :: b' => N.ltb x y || (N.eqb x y && str_ltb a' b')
  end.
Definition vlt (a b : val) : bool :=
  match a, b with
  | VStr x, VStr y => str_ltb x y
  | VBytes x, VBytes y => str_ltb x y
  | _, _ => match num2 a, num2 b with Some x, Some y => Z.ltb x y | _, _ => false end
  end.

Fixpoint prefixb (p s : str) : bool :=
  match p, s with
  | [], _ => true
  | x :: p', y :: s' => N.eqb x y && prefixb p' s'
  | _ :: _, [] => false
  end.
Fixpoint substrb (n s : str) : bool :=
  prefixb n s || match s with [] => false | _ :: s' => substrb n s' end.
Definition suffixb (p s : str) : bool := prefixb (rev p) (rev s).

(* needle in matchee; a TypeError is caught by Contains.match and reported as a mismatch *)
Definition vcontains (needle matchee : val) : bool :=
  match matchee with
  | VStr s => match needle with VStr n => substrb n s | _ => false end
  | VBytes s => match needle with
                | VBytes n => substrb n s
                | VInt z => existsb (fun c => Z.eqb (Z.of_N c) z) s
                | VBool b => existsb (fun c => Z.eqb (Z.of_N c) (if b then 1 else 0)) s   (* bool has __index__ *)
                | _ => false                                                               (* float: TypeError *)
                end
  | VList l => existsb (fun x => veq x needle) l
  | VSet e => match key_of needle with Some (KInt z) => existsb (Z.eqb z) e | _ => false end
  | VDict kvs => match key_of needle with Some k => has_key k kvs | None => false end
  | _ => false
  end.

Definition vstarts (s p : val) : bool :=
  match s, p with
  | VStr a, VStr b | VBytes a, VBytes b => prefixb b a
  | _, _ => false
  end.
Definition vends (s p : val) : bool :=
  match s, p with
  | VStr a, VStr b | VBytes a, VBytes b => suffixb b a
  | _, _ => false
  end.

Definition vlen (v : val) : option Z :=
  match v with
  | VStr s | VBytes s => Some (Z.of_nat (length s))
  | VList l => Some (Z.of_nat (length l))
  | VSet e => Some (Z.of_nat (length e))
  | VDict l => Some (Z.of_nat (length l))
  | VExc _ _ => Some 3%Z
  | _ => None
  end.

(* isinstance against the types the harness uses *)
Inductive ty := TInt | TBool | TFloat | TSet | TStr | TBytes | TNone | TList | TDict | TRec | TObject | TTuple | TFunc | TExc (c : cls).
Definition isinst (v : val) (t : ty) : bool :=
  match t, v with
  | TObject, _ => true
  | TSet, VSet _ | TInt, VInt _ | TInt, VBool _ | TBool, VBool _ | TFloat, VFloat _ | TStr, VStr _ | TBytes, VBytes _ | TNone, VNone | TList, VList _
  | TDict, VDict _ | TRec, VRec _ _ | TTuple, VExc _ _ | TFunc, VRet _ | TFunc, VRaise _ _ => true
  | TExc d, VExcI c _ => issub c d
  | _, _ => false
  end.

(* helpers.list_subtract *)
Fixpoint remove_first (x : val) (l : list val) : list val :=      (* list.remove, when x in l *)
  match l with
  | [] => []
  | y :: r => if veq y x then r else y :: remove_first x r
  end.
Fixpoint list_subtract (a b : list val) : list val :=
  match b with
  | [] => a
  | x :: r => list_subtract (if existsb (fun y => veq y x) a then remove_first x a else a) r
  end.
Definition is_nil {A} (l : list A) : bool := match l with [] => true | _ => false end.

(* sorted() on keys of one kind *)
Definition key_leb (a b : key) : bool :=
  match a, b with
  | KInt x, KInt y => Z.leb x y
  | KStr x, KStr y => negb (str_ltb y x)
  | KInt _, KStr _ => true
  | KStr _, KInt _ => false
  end.

(* the preprocessing functions the harness uses with AfterPreprocessing *)
Definition apply_pp (p : nat) (v : val) : option val :=
  match p with
  | 0 => Some v                                                     (* lambda x: x *)
  | 1 => match vlen v with Some n => Some (VInt n) | None => None end   (* len *)
  | 2 => match v with VExcI _ a => Some (VList a) | _ => None end   (* lambda e: list(e.args) *)
  | 3 => Some (VList [v])                                           (* lambda x: [x] *)
  | 4 => match v with                                               (* lambda x: x + 1 *)
         | VInt z => Some (VInt (z + 1))
         | VBool b => Some (VInt (if b then 2 else 1))
         | VFloat h => Some (VFloat (h + 2))
         | _ => None
         end
  | 5 => match v with VList l => Some (VList (rev l)) | _ => None end   (* lambda l: l[::-1] *)
  | 6 => match v with VDict kvs => Some (VList (map snd kvs)) | _ => None end   (* lambda d: list(d.values()) *)
  | _ => None
  end.

(* ---------- matchers and mismatches ---------- *)
Inductive matcher :=
| Equals (e : val) | NotEquals (e : val) | Is (e : val) | LessThan (e : val) | GreaterThan (e : val)
| Contains (needle : val) | StartsWith (e : val) | EndsWith (e : val) | HasLength (n : Z)
| IsInstance (tys : list ty) | SameMembers (e : list val) | KeysEqual (ks : list key)
| Always | Never
| Leaf (n : nat)                              (* abstract: MatchesRegex, DocTestMatches, filesystem ... *)
| MatchesException (inst : bool) (cs : list cls) (eargs : list val) (vm : option matcher)
| Raises (em : option matcher)
| Not (m : matcher)
| MatchesAll (first_only : bool) (ms : list matcher)
| MatchesAny (ms : list matcher)
| AllMatch (m : matcher) | AnyMatch (m : matcher)
| MatchesListwise (first_only : bool) (ms : list matcher)
| MatchesSetwise (sid : nat) (ms : list matcher)
| MatchesDict (kms : list (key * matcher))
| ContainsDict (kms : list (key * matcher))
| ContainedByDict (kms : list (key * matcher))
| MatchesStructure (ams : list (nat * matcher))
| AfterPreprocessing (pp : nat) (annotate : bool) (m : matcher)
| Annotate (note : nat) (m : matcher).

Inductive mm :=
| MLeaf                                   (* Mismatch, _BinaryMismatch, DoesNotContain, ... *)
| MUnexp                                  (* MatchedUnexpectedly *)
| MAll (wrap : bool) (l : list mm)        (* MismatchesAll *)
| MAnn (d : mm)                           (* PostfixedMismatch = AnnotatedMismatch *)
| MPre (d : mm)                           (* PrefixedMismatch *)
| MDict (l : list mm).                    (* DictMismatches *)

Definition is_none {A} (o : option A) : bool := match o with None => true | Some _ => false end.
Definition leaf (ok : bool) : option mm := if ok then None else Some MLeaf.
Definition ann (r : option mm) : option mm :=                 (* Annotate.match *)
  match r with Some d => Some (MAnn d) | None => None end.

(* MatchesAny.match, AnyMatch.match: _higherorder.py:28-35, 238-246 *)
Fixpoint any_loop (rs : list (option mm)) (acc : list mm) : option mm :=
  match rs with
  | [] => Some (MAll true (rev acc))
  | None :: _ => None
  | Some d :: r => any_loop r (d :: acc)
  end.
(* MatchesAll.match, AllMatch.match, the loop of MatchesListwise.match:
   _higherorder.py:56-67, 219-226; _datastructures.py:63-78 *)
Fixpoint all_loop (first_only : bool) (rs : list (option mm)) (acc : list mm) : option mm :=
  match rs with
  | [] => match rev acc with [] => None | l => Some (MAll true l) end
  | None :: r => all_loop first_only r acc
  | Some d :: r => if first_only then Some d else all_loop first_only r (d :: acc)
  end.
(* MatchesListwise.match given the zipped verdicts: the length mismatch is collected first *)
Definition listwise (first_only len_ok : bool) (rs : list (option mm)) : option mm :=
  all_loop first_only rs (if len_ok then [] else [MAnn MLeaf]).

(* ---- MatchesSetwise.match, _datastructures.py:169-236, on the matrix
   rows[i][j] = "matcher i matches the j-th observed value" ---- *)
Definition at_ (j : nat) (row : list bool) : bool := nth j row false.
(* for matcher in remaining_matchers: if matcher.match(value) is None: remove; break *)
Fixpoint take (j : nat) (rem : list (list bool)) : option (list (list bool)) :=
  match rem with
  | [] => None
  | r :: t => if at_ j r then Some t else option_map (cons r) (take j t)
  end.
(* for value in observed: ... else: not_matched.append(value) *)
Fixpoint greedy (rem : list (list bool)) (js : list nat) : list (list bool) * list nat :=
  match js with
  | [] => (rem, [])
  | j :: t => match take j rem with
              | Some rem' => greedy rem' t
              | None => let '(r, nm) := greedy rem t in (r, j :: nm)
              end
  end.
Fixpoint zipw {A B C} (f : A -> B -> C) (a : list A) (b : list B) : list C :=
  match a, b with
  | x :: a', y :: b' => f x y :: zipw f a' b'
  | _, _ => []
  end.
Definition setwise_post (rows : list (list bool)) (n : nat) : option mm :=
  let '(rem, nm) := greedy rows (seq 0 n) in
  match nm, rem with
  | [], [] => None
  | [], _ => Some MLeaf                      (* matchers left over *)
  | _, [] => Some MLeaf                      (* values left over *)
  | _, _ =>
      let c := Nat.min (length rem) (length nm) in
      ann (listwise false true (zipw (fun r j => leaf (at_ j r)) (firstn c rem) (firstn c nm)))
  end.
(* the set iterates its members by increasing rank *)
Definition reorder {A} (rk : nat -> nat) (l : list A) : list A :=
  map snd (isort (fun a b => Nat.leb (rk (fst a)) (rk (fst b))) (combine (seq 0 (length l)) l)).

(* ---- _dict.py: MatchesAllDict over the labelled sub-matchers ---- *)
Definition dict_mis (l : list mm) : option mm :=              (* _dict_to_mismatch *)
  match l with [] => None | _ => Some (MDict l) end.
Definition labelled (rs : list (option mm)) : option mm :=    (* MatchesAllDict.match *)
  match flat_map (fun r => match r with Some d => [MPre d] | None => [] end) rs with
  | [] => None
  | l => Some (MAll false l)
  end.
(* _SubDictOf(expected).match(observed): keys of observed that expected lacks *)
Definition sub_dict_of {A B} (expected : list (key * A)) (observed : list (key * B)) : option mm :=
  dict_mis (map (fun _ => MLeaf) (filter (fun kv => negb (has_key (fst kv) expected)) observed)).

(* Raises.match once the callable has raised class c: _exception.py:103-121 *)
Inductive outcome := OMatch | OMis (d : mm) | OProp (c : cls).
Definition raises_rule (has_matcher : bool) (r : option mm) (c : cls) : outcome :=
  if has_matcher && is_none r then OMatch
  else if is_user c then match r with None => OMatch | Some d => OMis d end
  else OProp c.
Definition flat (o : outcome) : option mm :=
  match o with OMatch => None | OMis d => Some d | OProp _ => Some MLeaf end.

Section Match.
  Variable leafsem : nat -> val -> bool.
  Variable rank : nat -> nat -> nat.

  Fixpoint match_ (m : matcher) (v : val) {struct m} : option mm :=
    match m with
    | Equals e => leaf (veq v e)
    | NotEquals e => leaf (negb (veq v e))
    | Is e => leaf (vis v e)
    | LessThan e => leaf (vlt v e)
    | GreaterThan e => leaf (vlt e v)
    | Contains n => leaf (vcontains n v)
    | StartsWith e => leaf (vstarts v e)
    | EndsWith e => leaf (vends v e)
    | HasLength n => leaf (match vlen v with Some k => Z.eqb k n | None => false end)
    | IsInstance tys => leaf (existsb (isinst v) tys)
    | SameMembers e =>
        match v with
        | VList l => leaf (is_nil (list_subtract e l) && is_nil (list_subtract l e))
        | _ => Some MLeaf
        end
    | KeysEqual ks =>
        match v with
        | VDict kvs => match leaf (list_eqb key_eqb (isort key_leb (map fst kvs)) (isort key_leb ks)) with
                       | Some d => Some (MAnn d) | None => None end
        | _ => Some MLeaf
        end
    | Always => None
    | Never => Some MLeaf
    | Leaf n => leaf (leafsem n v)
    | MatchesException inst cs eargs vm =>
        match v with
        | VExc c a =>
            if negb (existsb (issub c) cs) then Some MLeaf
            else if inst then leaf (list_eqb veq a eargs)
            else match vm with Some m' => match_ m' (VExcI c a) | None => None end
        | _ => Some MLeaf                                     (* not an exc_info tuple *)
        end
    | Raises em =>
        match v with
        | VRaise c a =>
            flat (raises_rule (negb (is_none em))
                              (match em with Some m' => match_ m' (VExc c a) | None => None end) c)
        | _ => Some MLeaf                                     (* returned a value *)
        end
    | Not m' => match match_ m' v with None => Some MUnexp | Some _ => None end
    | MatchesAll fo ms =>
        all_loop fo ((fix go (ms : list matcher) := match ms with [] => [] | m' :: r => match_ m' v :: go r end) ms) []
    | MatchesAny ms =>
        any_loop ((fix go (ms : list matcher) := match ms with [] => [] | m' :: r => match_ m' v :: go r end) ms) []
    | AllMatch m' =>
        match v with
        | VList l => all_loop false (map (match_ m') l) []
        | _ => Some MLeaf
        end
    | AnyMatch m' =>
        match v with
        | VList l => any_loop (map (match_ m') l) []
        | _ => Some MLeaf
        end
    | MatchesListwise fo ms =>
        match v with
        | VList l =>
            listwise fo (Nat.eqb (length l) (length ms))
              ((fix go (ms : list matcher) (l : list val) :=
                  match ms, l with
                  | m' :: r, x :: l' => match_ m' x :: go r l'
                  | _, _ => []
                  end) ms l)
        | _ => Some MLeaf
        end
    | MatchesSetwise sid ms =>
        match v with
        | VList l =>
            setwise_post
              (reorder (rank sid)
                 ((fix go (ms : list matcher) :=
                     match ms with
                     | [] => []
                     | m' :: r => map (fun x => is_none (match_ m' x)) l :: go r
                     end) ms))
              (length l)
        | _ => Some MLeaf
        end
    | MatchesDict kms =>
        match v with
        | VDict obs =>
            labelled [sub_dict_of kms obs; sub_dict_of obs kms;
                      dict_mis ((fix go (kms : list (key * matcher)) :=
                                   match kms with
                                   | [] => []
                                   | (k, m') :: r =>
                                       match lookup k obs with
                                       | Some x => match match_ m' x with Some d => [d] | None => [] end
                                       | None => []
                                       end ++ go r
                                   end) kms)]
        | _ => Some MLeaf
        end
    | ContainsDict kms =>
        match v with
        | VDict obs =>
            labelled [sub_dict_of obs kms;
                      dict_mis ((fix go (kms : list (key * matcher)) :=
                                   match kms with
                                   | [] => []
                                   | (k, m') :: r =>
                                       match lookup k obs with
                                       | Some x => match match_ m' x with Some d => [d] | None => [] end
                                       | None => []
                                       end ++ go r
                                   end) kms)]
        | _ => Some MLeaf
        end
    | ContainedByDict kms =>
        match v with
        | VDict obs =>
            labelled [sub_dict_of kms obs;
                      dict_mis ((fix go (kms : list (key * matcher)) :=
                                   match kms with
                                   | [] => []
                                   | (k, m') :: r =>
                                       match lookup k obs with
                                       | Some x => match match_ m' x with Some d => [d] | None => [] end
                                       | None => []
                                       end ++ go r
                                   end) kms)]
        | _ => Some MLeaf
        end
    | MatchesStructure ams =>
        match v with
        | VRec _ attrs =>
            (* sorted(self.kws.items()); Annotate(attr, matcher) against getattr(value, attr);
               MatchesListwise(matchers).match(values) *)
            listwise false true
              (map snd
                 (isort (fun a b => Nat.leb (fst a) (fst b))
                    ((fix go (ams : list (nat * matcher)) :=
                        match ams with
                        | [] => []
                        | (a, m') :: r =>
                            (a, match getattr a attrs with
                                | Some x => ann (match_ m' x)
                                | None => Some MLeaf            (* AttributeError: outside the domain *)
                                end) :: go r
                        end) ams)))
        | _ => Some MLeaf
        end
    | AfterPreprocessing p annotate m' =>
        match apply_pp p v with
        | Some w => if annotate then ann (match_ m' w) else match_ m' w
        | None => Some MLeaf                                  (* outside the domain *)
        end
    | Annotate _ m' => ann (match_ m' v)
    end.

  (* what a caller of match() sees: the verdict, or the exception Raises lets through *)
  Definition run (m : matcher) (v : val) : outcome :=
    match m, v with
    | Raises em, VRaise c a =>
        raises_rule (negb (is_none em)) (match em with Some m' => match_ m' (VExc c a) | None => None end) c
    | _, _ => match match_ m v with None => OMatch | Some d => OMis d end
    end.
End Match.
