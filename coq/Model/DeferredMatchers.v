(* Model of testtools/twistedsupport/_deferred.py (extract_result 24-46,
   on_deferred_result 57-104), _matchers.py (_NoResult/_Succeeded/_Failed 22-158)
   and SynchronousDeferredRunTest._run_user (_runtest.py:77-81), over the Deferred
   of Model/Deferred.v.  Definitions only. *)
From TT Require Import Lib.Base Model.Deferred.

(* inner matchers, applied to the value token / the exception token of the Failure *)
Inductive inner :=
| IAlways | INever | IIs (k : nat)
| INot (m : inner)                 (* Not(m) *)
| IBoth (a b : inner)              (* MatchesAll(a, b) *)
| IEither (a b : inner).           (* MatchesAny(a, b) *)
Fixpoint inner_match (m : inner) (tok : nat) : bool :=
  match m with
  | IAlways => true
  | INever => false
  | IIs k => Nat.eqb k tok
  | INot a => negb (inner_match a tok)
  | IBoth a b => inner_match a tok && inner_match b tok
  | IEither a b => inner_match a tok || inner_match b tok
  end.

Inductive matcher := MNoResult | MSucceeded (m : inner) | MFailed (m : inner).

(* on_deferred_result adds the capture pair (both pass their argument through); the pair runs
   at once iff the Deferred can hand out a result now, and then sees the current result; then it
   dispatches on what was captured; _Succeeded/_Failed add an errback returning None after looking
   at a failure.  true = match() returned None. *)
Definition match_deferred (m : matcher) (d : deferred) (lg : log) : bool * deferred * log :=
  let '(d1, lg1) := add_callbacks (CPass, CPass) d lg in
  let captured := if runnable d then d_result d1 else None in
  match m, captured with
  | MNoResult, None => (true, d1, lg1)
  | MNoResult, Some _ => (false, d1, lg1)
  | MSucceeded im, Some (RVal v) => (inner_match im v, d1, lg1)
  | MSucceeded _, Some (RErr _) =>
      let '(d2, lg2) := add_callbacks (CPass, CConst 0) d1 lg1 in (false, d2, lg2)
  | MSucceeded _, None => (false, d1, lg1)
  | MFailed im, Some (RErr e) =>
      let '(d2, lg2) := add_callbacks (CPass, CConst 0) d1 lg1 in (inner_match im e, d2, lg2)
  | MFailed _, Some (RVal _) => (false, d1, lg1)
  | MFailed _, None => (false, d1, lg1)
  end.

(* extract_result: addCallbacks(successes.append, failures.append) - both return None *)
(* exceptions are class tokens; two of them are the classes the helpers themselves raise, and a failed
   Deferred (or a test) may just as well carry them *)
Definition notfired_tok := 90.      (* testtools.twistedsupport._deferred.DeferredNotFired *)
Definition impossible_tok := 91.    (* testtools.twistedsupport._deferred.ImpossibleDeferredError *)
(* classes that are BaseExceptions but not Exceptions: Deferred.errback, a raising callback and maybeDeferred
   wrap them into a Failure like any other class, and nothing in the code modelled here looks at the class *)
Definition kbint_tok := 6.          (* KeyboardInterrupt *)
Definition sysexit_tok := 7.        (* SystemExit *)
Definition genexit_tok := 8.        (* GeneratorExit *)
Definition dbase_tok := 9.          (* a user-defined direct subclass of BaseException *)
Inductive xexc := XUser (e : nat) | XOther.          (* an exception of class e; a class outside the pools *)
Definition XNotFired := XUser notfired_tok.
Definition extract_result (d : deferred) (lg : log) : res nat xexc * deferred * log :=
  let seen := if runnable d then d_result d else None in
  let '(d1, lg1) := add_callbacks (CConst 0, CConst 0) d lg in
  (match seen with
   | Some (RErr e) => Raised (XUser e)
   | Some (RVal v) => Ok v
   | None => Raised XNotFired
   end, d1, lg1).

(* ---- histories on one Deferred ---- *)
Inductive op :=
| OMatch (m : matcher)
| OFire (v : nat)
| OFail (e : nat)
| OAdd (cb eb : cbfun)
| OExtract
| OPause                          (* d.pause() *)
| OUnpause                        (* d.unpause(), if an earlier pause() of the history is still in force *)
| OResume (x : dres).             (* the Deferred the chain waits for (if any) fires / fails *)

Inductive opout :=
| OutMatch (b : bool)
| OutDone
| OutAlready                       (* AlreadyCalledError *)
| OutExtract (r : res nat xexc).

Definition step (o : op) (d : deferred) (lg : log) : opout * deferred * log :=
  match o with
  | OMatch m => let '(b, d', lg') := match_deferred m d lg in (OutMatch b, d', lg')
  | OFire v => match fire (RVal v) d lg with Some (d', lg') => (OutDone, d', lg') | None => (OutAlready, d, lg) end
  | OFail e => match fire (RErr e) d lg with Some (d', lg') => (OutDone, d', lg') | None => (OutAlready, d, lg) end
  | OAdd cb eb => let '(d', lg') := add_callbacks (cb, eb) d lg in (OutDone, d', lg')
  | OExtract => let '(r, d', lg') := extract_result d lg in (OutExtract r, d', lg')
  | OPause => (OutDone, pause d, lg)
  | OUnpause => let '(d', lg') := unpause d lg in (OutDone, d', lg')
  | OResume x => let '(d', lg') := resume x d lg in (OutDone, d', lg')
  end.

(* does matching m against a Deferred in state s consume a failure *)
Definition consumes (m : matcher) (s : dstate) : bool :=
  match m, s with
  | MSucceeded _, SErr _ | MFailed _, SErr _ => true
  | _, _ => false
  end.

(* the same history with every match taken out; where the match looked at a failure
   with succeeded()/failed(), an errback returning None takes its place *)
Fixpoint erase (ops : list op) (d : deferred) (lg : log) : list op :=
  match ops with
  | [] => []
  | o :: r =>
      let '(_, d', lg') := step o d lg in
      (match o with
       | OMatch m => if consumes m (state_of d) then [OAdd CPass (CConst 0)] else []
       | _ => [o]
       end) ++ erase r d' lg'
  end.

(* ---- SynchronousDeferredRunTest._run_user ---- *)
Inductive stage :=
| StReturn (v : nat)               (* the function returns v *)
| StRaise (e : nat)                (* the function raises e *)
| StDeferred (d : deferred).       (* the function returns this Deferred *)

Inductive uret :=
| URet (v : nat)                   (* _run_user returned v *)
| UCaught (e : nat)                (* _got_user_exception(e) was called and exception_caught returned *)
| URaised (x : xexc).              (* _run_user itself raised *)

(* RunTest._run_user, runtest.py:218-229: the reference "as if it had returned or raised directly" *)
Definition direct_run_user (s : nat + nat) : uret :=
  match s with inl v => URet v | inr e => UCaught e end.

Definition fired_with (x : dres) : deferred := mkD true (Some x) [] 0 false (is_rerr x).

(* maybeDeferred(function); addErrback(_got_user_failure); extract_result.
   _got_user_failure returns the exception_caught sentinel: token [caught_tok]. *)
Definition caught_tok := 4999.
Definition sync_run_user (s : stage) : uret :=
  let d := match s with
           | StReturn v => fired_with (RVal v)               (* defer.succeed *)
           | StRaise e => fired_with (RErr e)                (* defer.fail(Failure()) *)
           | StDeferred d => d
           end in
  let caught := if runnable d then match d_result d with Some (RErr e) => Some e | _ => None end else None in
  let '(d1, _) := add_callbacks (CPass, CConst caught_tok) d [] in
  match extract_result d1 [] with
  | (Ok v, _, _) => match caught with Some e => UCaught e | None => URet v end
  | (Raised x, _, _) => URaised x
  end.
