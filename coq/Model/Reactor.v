(* Model of the reactor as far as testtools.twistedsupport uses it (shared by C14, C15):
   a discrete-event queue of delayed calls (time, seq, action) with an explicit
   tie-break oracle, callWhenRunning hooks, run / crash / stop, getDelayedCalls
   (a FRESH list: the model's lists are values), selectables as opaque junk.
   It is the model of harness/vcheck/vreactor.py, which in turn stands for the
   real reactor (validated by the real-reactor samples).  Definitions only. *)
From TT Require Import Lib.Base.

Definition time := nat.

Section Reactor.
  Context {A : Type}.                 (* what a delayed call does: interpreted by the user of the reactor *)

  Record dcall := mkCall { dc_time : time; dc_seq : nat; dc_act : A }.

  Record reactor := mkReactor {
    now : time;
    nextseq : nat;
    queue : list dcall;               (* pending delayed calls, in insertion order *)
    hooks : list A;                   (* callWhenRunning before run(): run at startup *)
    readers : list nat;               (* selectables: opaque tokens *)
    running : bool;
    really_stopped : bool;            (* the real stop() was called: cannot be restarted *)
    oracle : list nat                 (* tie-break choices, one consumed per tie *)
  }.

  Definition new_reactor (orc : list nat) : reactor :=
    mkReactor 0 0 [] [] [] false false orc.

  Definition set_queue q r := mkReactor (now r) (nextseq r) q (hooks r) (readers r) (running r) (really_stopped r) (oracle r).
  Definition set_running b r := mkReactor (now r) (nextseq r) (queue r) (hooks r) (readers r) b (really_stopped r) (oracle r).
  Definition set_hooks h r := mkReactor (now r) (nextseq r) (queue r) h (readers r) (running r) (really_stopped r) (oracle r).
  Definition set_readers l r := mkReactor (now r) (nextseq r) (queue r) (hooks r) l (running r) (really_stopped r) (oracle r).

  (* reactor.callLater(d, a): returns the handle (its sequence number) *)
  Definition call_later (d : time) (a : A) (r : reactor) : reactor * nat :=
    (mkReactor (now r) (S (nextseq r)) (queue r ++ [mkCall (now r + d) (nextseq r) a]) (hooks r) (readers r)
               (running r) (really_stopped r) (oracle r),
     nextseq r).

  (* DelayedCall.cancel() of the call with handle s (no effect when it is not pending) *)
  Definition remove_seq (s : nat) (q : list dcall) : list dcall :=
    filter (fun c => negb (Nat.eqb (dc_seq c) s)) q.
  Definition cancel (s : nat) (r : reactor) : reactor := set_queue (remove_seq s (queue r)) r.

  Definition add_reader (k : nat) (r : reactor) : reactor := set_readers (readers r ++ [k]) r.
  Definition remove_all (r : reactor) : list nat * reactor := (readers r, set_readers [] r).

  Definition call_when_running (a : A) (r : reactor) : reactor := set_hooks (hooks r ++ [a]) r.

  Definition crash (r : reactor) : reactor := set_running false r.
  Definition real_stop (r : reactor) : reactor :=
    mkReactor (now r) (nextseq r) (queue r) (hooks r) (readers r) false true (oracle r).

  (* the earliest pending instant *)
  Fixpoint min_time (q : list dcall) : option time :=
    match q with
    | [] => None
    | c :: r => Some (match min_time r with None => dc_time c | Some m => Nat.min (dc_time c) m end)
    end.

  (* the calls due at the earliest instant, in insertion order *)
  Definition candidates (q : list dcall) : list dcall :=
    match min_time q with
    | None => []
    | Some m => filter (fun c => Nat.eqb (dc_time c) m) q
    end.

  (* one call among the candidates; a tie consumes one oracle choice (no choice left: the first) *)
  Definition choose (orc : list nat) (cands : list dcall) : option (dcall * list nat) :=
    match cands with
    | [] => None
    | [c] => Some (c, orc)
    | c :: _ => match orc with
                | [] => Some (c, [])
                | k :: orc' => Some (nth (k mod length cands) cands c, orc')
                end
    end.

  (* take one of the given calls out of the queue and move the clock to it *)
  Definition pop_from (cands : list dcall) (r : reactor) : option (dcall * reactor) :=
    match choose (oracle r) cands with
    | None => None
    | Some (c, orc') =>
        Some (c, mkReactor (Nat.max (now r) (dc_time c)) (nextseq r) (remove_seq (dc_seq c) (queue r))
                           (hooks r) (readers r) (running r) (really_stopped r) orc')
    end.
  (* the next call *)
  Definition pop_next (r : reactor) : option (dcall * reactor) := pop_from (candidates (queue r)) r.
  (* a call due exactly at instant t *)
  Definition pop_at (t : time) (r : reactor) : option (dcall * reactor) :=
    pop_from (filter (fun c => Nat.eqb (dc_time c) t) (queue r)) r.

  (* ---- the event loop over a world that contains the reactor ---- *)
  Inductive loop_end := LDone | LHung | LFuel.

  Section Loop.
    Context {W : Type}.
    Variable get : W -> reactor.
    Variable set : reactor -> W -> W.
    Variable exec : dcall -> W -> W.      (* run one delayed call (it is already out of the queue) *)
    Variable exec_hook : A -> W -> W.
    (* batch = false: ONE call per iteration, `running` examined after each (crash() takes effect at once);
       batch = true: like the real reactor's runUntilCurrent, every call due at the same instant runs in
       the same iteration, whatever crash() did in between (cancelled ones are gone from the queue) *)
    Variable batch : bool.

    (* the other calls due at instant t, one after the other (at most k of them) *)
    Fixpoint drain (k : nat) (t : time) (w : W) : W :=
      match k with
      | 0 => w
      | S k' => match pop_at t (get w) with
                | None => w
                | Some (c, r') => drain k' t (exec c (set r' w))
                end
      end.

    (* reactor.run(), main loop *)
    Fixpoint loop (fuel : nat) (w : W) : loop_end * W :=
      if negb (running (get w)) then (LDone, w) else
      match fuel with
      | 0 => (LFuel, w)
      | S f =>
          match pop_next (get w) with
          | None => (LHung, set (set_running false (get w)) w)   (* nothing left to do: the real reactor blocks for ever *)
          | Some (c, r') =>
              let w1 := exec c (set r' w) in
              loop f (if batch then drain (length (queue r')) (dc_time c) w1 else w1)
          end
      end.

    (* startup: ALL the callWhenRunning hooks ('after startup' triggers) fire, in registration order, whatever
       crash() did meanwhile - as in the real reactor, where only the main loop looks at `running` *)
    Fixpoint run_hooks (hs : list A) (w : W) : W :=
      match hs with
      | [] => w
      | h :: rest => run_hooks rest (exec_hook h (set (set_hooks rest (get w)) w))
      end.

    Definition reactor_run (fuel : nat) (w : W) : loop_end * W :=
      let w1 := set (set_running true (get w)) w in
      let w2 := run_hooks (hooks (get w1)) w1 in
      loop fuel w2.

    (* reactor.iterate(0): every call that is due now runs; virtual time does not move *)
    Definition due (r : reactor) : list dcall := filter (fun c => Nat.leb (dc_time c) (now r)) (queue r).
    Fixpoint run_due (cs : list dcall) (w : W) : W :=
      match cs with
      | [] => w
      | c :: rest =>
          if existsb (fun x => Nat.eqb (dc_seq x) (dc_seq c)) (queue (get w))
          then run_due rest (exec c (set (cancel (dc_seq c) (get w)) w))
          else run_due rest w
      end.
    Definition iterate (w : W) : W := run_due (due (get w)) w.
  End Loop.
End Reactor.

Arguments dcall : clear implicits.
Arguments reactor : clear implicits.
