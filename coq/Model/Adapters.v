(* Model of the result adapters of testtools/testresult/real.py:
     ExtendedToOriginalDecorator   real.py:1424-1632  (details= attempt, TypeError fallback to
                                   exc_info / reason, getattr probes, AttributeError swallowing)
     _details_to_str               real.py:2164-2214
     MultiTestResult._dispatch     real.py:1087-1173  (every wrapped result sits behind its own
                                   ExtendedToOriginalDecorator)
     TestResultDecorator / Tagger  real.py:1970-2054
     TestByTestResult              real.py:2057-2132
   and of the targets they talk to: the doubles of testtools/testresult/doubles.py and
   testtools.TestResult, each given by its capability set.

   Shape of the model.  No adapter keeps state that influences what it forwards (failfast is
   never set), so an adapter is a translation of calls: every leaf of the adapter tree sits
   below a path of layers, and the calls the leaf receives are the history pushed through the
   conversions of these layers, outermost first ([paths], [through]).  What a layer does with a
   call depends on the interface of the object directly below it ([iface] / [piface]): that is
   what the getattr probes and the TypeError / AttributeError handlers of the code test.
   Executable definitions only. *)
From TT Require Import Lib.Base Lib.Sort.
From TT Require Gen.Bytest.

Definition tag := nat.
Definition text := list nat.            (* a str, as code points *)
(* detail names are the str keys of the details dict, as they are: 'traceback', 'traceback-1',
   'traceback-1-2' (TestCase._report_traceback), 'tracebackx', 'reason', 'reason-1', ... are all
   different names; what the code does with a name is compare it (==, dict lookup) and sort it *)
Definition name := text.
Definition n_reason : name := [114; 101; 97; 115; 111; 110].                      (* "reason" *)
Definition n_traceback : name := [116; 114; 97; 99; 101; 98; 97; 99; 107].        (* "traceback" *)
Definition name_eqb : name -> name -> bool := list_eqb Nat.eqb.                   (* str.__eq__ *)
(* str.__le__: lexicographic on code points, a proper prefix first *)
Fixpoint name_leb (a b : name) : bool :=
  match a, b with
  | [], _ => true
  | _ :: _, [] => false
  | x :: a', y :: b' => if x <? y then true else if y <? x then false else name_leb a' b'
  end.

(* ---------- values that travel ---------- *)
(* what an err argument can be: an exc_info the caller supplied (token k), the exception
   addUnexpectedSuccess makes up (failureException("") or AssertionError("")), a
   _StringException with its text; Other only occurs in observations of the implementation *)
Inductive errv := Orig (k : nat) | Fresh | Str (t : text) | Other.

(* a Content object: text/* with its decoded text, a non-text type with its bytes, or the
   TracebackContent that TestByTestResult builds from an exc_info *)
Inductive dkind := DText (t : text) | DBin (b : list nat) | DTb (e : errv).
Definition detail := (name * dkind)%type.
Definition details := list detail.      (* a dict, in insertion order; names distinct *)

Inductive ekind := KError | KFailure | KXFail.
Inductive okind := KSuccess | KUxSuccess.
(* TestCase-like, or PlaceHolder/ErrorHolder-like: no fail(), failureException = None *)
Inductive tkind := TCase | THolder.
Record test := { tid : nat; tk : tkind }.

Inductive call :=
| StartTestRun | StopTestRun
| Tags (new gone : list tag)
| Time (t : nat)
| Progress (off wh : nat)
| StartTest (t : test)
| StopTest (t : test)
| AddErr (k : ekind) (t : test) (a : errv + details)      (* addError / addFailure / addExpectedFailure: err or details= *)
| AddSkip (t : test) (a : text + details)                 (* addSkip: reason or details= *)
| AddOk (k : okind) (t : test) (d : option details)       (* addSuccess / addUnexpectedSuccess: optional details= *)
| Stop | Done.

(* ---------- capability sets ---------- *)
(* startTest, stopTest, addError, addFailure, addSuccess exist on every result *)
Record caps := {
  c_skip : bool; c_xfail : bool; c_uxs : bool;   (* addSkip / addExpectedFailure / addUnexpectedSuccess exist *)
  c_details : bool;                              (* the outcome methods accept details= *)
  c_startrun : bool; c_stoprun : bool;
  c_tags : bool; c_time : bool; c_progress : bool; c_done : bool; c_stop : bool }.

Definition full : caps :=
  {| c_skip := true; c_xfail := true; c_uxs := true; c_details := true; c_startrun := true; c_stoprun := true;
     c_tags := true; c_time := true; c_progress := true; c_done := true; c_stop := true |}.
Definition no_progress (c : caps) : caps :=
  {| c_skip := c_skip c; c_xfail := c_xfail c; c_uxs := c_uxs c; c_details := c_details c;
     c_startrun := c_startrun c; c_stoprun := c_stoprun c; c_tags := c_tags c; c_time := c_time c;
     c_progress := false; c_done := c_done c; c_stop := c_stop c |}.
Definition no_done (c : caps) : caps :=
  {| c_skip := c_skip c; c_xfail := c_xfail c; c_uxs := c_uxs c; c_details := c_details c;
     c_startrun := c_startrun c; c_stoprun := c_stoprun c; c_tags := c_tags c; c_time := c_time c;
     c_progress := c_progress c; c_done := false; c_stop := c_stop c |}.

(* the five flavours of the property (the harness probes the live classes and sends the
   capability set it finds; these are the values on the pinned tree) *)
Definition py26 : caps :=
  {| c_skip := false; c_xfail := false; c_uxs := false; c_details := false; c_startrun := false; c_stoprun := false;
     c_tags := false; c_time := false; c_progress := false; c_done := false; c_stop := true |}.
Definition py27 : caps :=
  {| c_skip := true; c_xfail := true; c_uxs := true; c_details := false; c_startrun := true; c_stoprun := true;
     c_tags := false; c_time := false; c_progress := false; c_done := false; c_stop := true |}.
Definition extended : caps := no_done full.                 (* doubles.ExtendedTestResult *)
Definition twisted : caps :=
  {| c_skip := true; c_xfail := true; c_uxs := true; c_details := false; c_startrun := false; c_stoprun := false;
     c_tags := false; c_time := false; c_progress := false; c_done := true; c_stop := false |}.
Definition tt_result : caps := no_progress full.            (* testtools.TestResult *)

(* ---------- the adapter tree ---------- *)
Inductive adapter :=
| Target (c : caps)
| ByTest (bad : list nat)                       (* TestByTestResult(on_test); on_test raises (after it has taken
                                                   its arguments) for the tests whose id is in bad *)
| E2O (a : adapter)                             (* ExtendedToOriginalDecorator(a) *)
| Multi (l : list adapter)                      (* MultiTestResult( *l ) *)
| Deco (a : adapter)                            (* TestResultDecorator(a) *)
| Tagger (new gone : list tag) (a : adapter).   (* Tagger(a, new, gone) *)

(* what an object offers to the one above it: the attributes it has and whether its outcome
   methods take details= *)
Definition iface (a : adapter) : caps :=
  match a with
  | Target c => c
  | ByTest _ => tt_result
  | E2O _ => full
  | Multi _ => no_progress full          (* MultiTestResult has no progress() *)
  | Deco _ | Tagger _ _ _ => no_done full  (* TestResultDecorator has no done() *)
  end.

(* ---------- _details_to_str ---------- *)
Definition is_ws (c : nat) : bool :=      (* str.isspace below U+1680 *)
  (c =? 32) || ((9 <=? c) && (c <=? 13)) || ((28 <=? c) && (c <=? 31)) || (c =? 133) || (c =? 160).
Fixpoint lstrip (t : text) : text :=
  match t with
  | [] => []
  | c :: r => if is_ws c then lstrip r else t
  end.
Definition strip (t : text) : text := rev (lstrip (rev (lstrip t))).

Definition nl : nat := 10.
Fixpoint join (sep : text) (l : list text) : text :=
  match l with
  | [] => []
  | [x] => x
  | x :: r => x ++ sep ++ join sep r
  end.
Definition ends_nl (t : text) : bool := match rev t with c :: _ => c =? nl | [] => false end.

Definition t_open : text := [58; 32; 123; 123; 123].       (* ": {{{" *)
Definition t_close : text := [125; 125; 125].              (* "}}}" *)
Definition t_binary_hdr : text := [66; 105; 110; 97; 114; 121; 32; 99; 111; 110; 116; 101; 110; 116; 58; 10].   (* "Binary content:\n" *)
Definition t_empty_hdr : text :=
  [69; 109; 112; 116; 121; 32; 97; 116; 116; 97; 99; 104; 109; 101; 110; 116; 115; 58; 10].                     (* "Empty attachments:\n" *)
Definition t_octet : text :=   (* " (application/octet-stream)\n" *)
  [32; 40; 97; 112; 112; 108; 105; 99; 97; 116; 105; 111; 110; 47; 111; 99; 116; 101; 116; 45; 115; 116; 114; 101; 97; 109; 41; 10].

(* _format_text_attachment *)
Definition format_attachment (n : name) (t : text) : text :=
  if existsb (Nat.eqb nl) t
  then n ++ t_open ++ [nl] ++ t ++ [nl] ++ t_close ++ [nl]
  else n ++ t_open ++ t ++ t_close.

(* sorted(details.items()): the names are distinct, so the Content objects are never compared *)
Definition detail_leb (a b : detail) : bool := name_leb (fst a) (fst b).

(* as_text() of a detail that is treated as text (a DTb is a text/x-traceback whose text the
   model does not know: it never reaches _details_to_str in a well-formed run) *)
Definition dtext (k : dkind) : option text :=
  match k with DText t => Some t | DBin _ => None | DTb _ => Some [] end.

(* the three lists the loop of _details_to_str builds, over the sorted items *)
Fixpoint d2s_scan (special : option name) (ds : details)
  : list name * list name * list text * option text :=     (* binary, empty, text_attachments, special_content *)
  match ds with
  | [] => ([], [], [], None)
  | (n, k) :: r =>
      let '(bin, emp, txt, sp) := d2s_scan special r in
      match dtext k with
      | None => (n :: bin, emp, txt, sp)
      | Some t =>
          let s := strip t in
          match s with
          | [] => (bin, n :: emp, txt, sp)
          | _ => if option_eqb name_eqb (Some n) special      (* key == special *)
                 then (bin, emp, txt, Some (s ++ [nl]))
                 else (bin, emp, format_attachment n s :: txt, sp)
          end
      end
  end.

Definition is_nil {A} (l : list A) : bool := match l with [] => true | _ => false end.

Definition details_to_str (ds : details) (special : option name) : text :=
  let '(bin, emp, txt, sp) := d2s_scan special (isort detail_leb ds) in
  let txt1 := if negb (is_nil txt) && negb (ends_nl (last txt [])) then txt ++ [[]] else txt in
  let txt2 := match sp with Some s => txt1 ++ [s] | None => txt1 end in
  (if is_nil bin then [] else t_binary_hdr ++ flat_map (fun n => [32; 32] ++ n ++ t_octet) bin)
  ++ (if is_nil emp then [] else t_empty_hdr ++ flat_map (fun n => [32; 32] ++ n ++ [nl]) emp)
  ++ (if negb (is_nil bin && is_nil emp) && negb (is_nil txt2) then [nl] else [])
  ++ join [nl] txt2.

(* _details_to_exc_info: (_StringException, _StringException(_details_to_str(details, special="traceback")), None) *)
Definition details_to_exc_info (d : details) : errv := Str (details_to_str d (Some n_traceback)).

Fixpoint lookup (n : name) (d : details) : option dkind :=
  match d with
  | [] => None
  | (m, k) :: r => if name_eqb n m then Some k else lookup n r
  end.

(* addSkip's fallback: details["reason"].as_text(), on KeyError _details_to_str(details) *)
Definition skip_reason (d : details) : text :=
  match lookup n_reason d with
  | Some k => match dtext k with Some t => t | None => [] end
  | None => details_to_str d None
  end.

(* ---------- ExtendedToOriginalDecorator ---------- *)
(* the calls an ExtendedToOriginalDecorator makes on the object below it, whose interface is ci *)
Definition e2o_conv (ci : caps) (c : call) : list call :=
  match c with
  | StartTestRun => if c_startrun ci then [c] else []          (* except AttributeError: return *)
  | StopTestRun => if c_stoprun ci then [c] else []
  | Done => if c_done ci then [c] else []
  | Tags _ _ => if c_tags ci then [c] else []                   (* else: own TagContext *)
  | Time _ => if c_time ci then [c] else []
  | Progress _ _ => if c_progress ci then [c] else []
  | Stop => if c_stop ci then [c] else []                       (* else: self.shouldStop = True *)
  | StartTest _ | StopTest _ => [c]
  | AddErr k t a =>
      if match k with KXFail => c_xfail ci | _ => true end then
        match a with
        | inl _ => [c]
        | inr d => if c_details ci then [c] else [AddErr k t (inl (details_to_exc_info d))]
        end
      else [AddOk KSuccess t None]                               (* return self.addSuccess(test) *)
  | AddSkip t a =>
      if c_skip ci then
        match a with
        | inl _ => [c]
        | inr d => if c_details ci then [c] else [AddSkip t (inl (skip_reason d))]
        end
      else [AddOk KSuccess t None]                               (* return self.decorated.addSuccess(test) *)
  | AddOk KSuccess t d =>
      match d with
      | Some _ => if c_details ci then [c] else [AddOk KSuccess t None]
      | None => [c]
      end
  | AddOk KUxSuccess t d =>
      if c_uxs ci then
        match d with
        | Some _ => if c_details ci then [c] else [AddOk KUxSuccess t None]
        | None => [c]
        end
      else [AddErr KFailure t (inl Fresh)]                       (* raise failure(""); self.addFailure(test, sys.exc_info()) *)
  end.

(* TestResultDecorator: every method forwards the same call; there is no done() *)
Definition deco_conv (c : call) : list call :=
  match c with Done => [] | _ => [c] end.

(* Tagger.startTest: super().startTest(test); self.tags(new, gone) *)
Definition tagger_conv (new gone : list tag) (c : call) : list call :=
  match c with
  | StartTest _ => [c; Tags new gone]
  | _ => deco_conv c
  end.

(* MultiTestResult: each wrapped result is an ExtendedToOriginalDecorator; there is no progress() *)
Definition multi_conv (ci : caps) (c : call) : list call :=
  match c with Progress _ _ => [] | _ => e2o_conv ci c end.

(* ---------- paths ---------- *)
Inductive layer := LE2O | LMulti | LDeco | LTagger (new gone : list tag).
Inductive leaf := LfTarget (c : caps) | LfByTest (bad : list nat).
Definition path := (list layer * leaf)%type.

Definition push (l : layer) (p : path) : path := (l :: fst p, snd p).

Fixpoint paths (a : adapter) : list path :=
  match a with
  | Target c => [([], LfTarget c)]
  | ByTest bad => [([], LfByTest bad)]
  | E2O a' => map (push LE2O) (paths a')
  | Multi l => flat_map (fun a' => map (push LMulti) (paths a')) l
  | Deco a' => map (push LDeco) (paths a')
  | Tagger n g a' => map (push (LTagger n g)) (paths a')
  end.

Definition leaf_caps (lf : leaf) : caps :=
  match lf with LfTarget c => c | LfByTest _ => tt_result end.

(* the interface of the object a path starts with (= iface of the sub-adapter) *)
Definition piface (ls : list layer) (lf : leaf) : caps :=
  match ls with
  | [] => leaf_caps lf
  | LE2O :: _ => full
  | LMulti :: _ => no_progress full
  | LDeco :: _ | LTagger _ _ :: _ => no_done full
  end.

Definition layer_conv (l : layer) (below : caps) (c : call) : list call :=
  match l with
  | LE2O => e2o_conv below c
  | LMulti => multi_conv below c
  | LDeco => deco_conv c
  | LTagger n g => tagger_conv n g c
  end.

(* the calls that arrive at the leaf when the calls cs are made on the top of the path *)
Fixpoint through (ls : list layer) (lf : leaf) (cs : list call) : list call :=
  match ls with
  | [] => cs
  | l :: r => through r lf (flat_map (layer_conv l (piface r lf)) cs)
  end.

(* ---------- what a top-level call raises ---------- *)
Inductive exn := AttributeError | ValueError | TypeError | OtherError
                 | CallbackError.   (* what a faulty on_test raises *)

(* done() and progress() do not exist everywhere; nothing else raises on a well-formed stack *)
Fixpoint raises (a : adapter) (c : call) {struct a} : option exn :=
  match c with
  | Done =>
      match a with
      | Target cp => if c_done cp then None else Some AttributeError
      | ByTest _ | E2O _ | Multi _ => None
      | Deco _ | Tagger _ _ _ => Some AttributeError
      end
  | Progress _ _ =>
      match a with
      | Target cp => if c_progress cp then None else Some AttributeError
      | ByTest _ | Multi _ => Some AttributeError
      | E2O a' => if c_progress (iface a') then raises a' c else None
      | Deco a' | Tagger _ _ a' => raises a' c
      end
  | _ => None
  end.

(* ---------- leaves ---------- *)
(* a logging target records the calls it has a method for; stop() and done() are not logged *)
Definition supports (cp : caps) (c : call) : bool :=
  match c with
  | StartTestRun => c_startrun cp
  | StopTestRun => c_stoprun cp
  | Tags _ _ => c_tags cp
  | Time _ => c_time cp
  | Progress _ _ => c_progress cp
  | AddErr KXFail _ _ => c_xfail cp
  | AddSkip _ _ => c_skip cp
  | AddOk KUxSuccess _ _ => c_uxs cp
  | Stop | Done => false
  | _ => true
  end.
Definition target_log (cp : caps) (cs : list call) : list call := filter (supports cp) cs.

(* TagContext.change_tags on a set kept as a strictly increasing list *)
Fixpoint tag_add (x : tag) (s : list tag) : list tag :=
  match s with
  | [] => [x]
  | y :: r => if x <? y then x :: s else if x =? y then s else y :: tag_add x r
  end.
Definition change_tags (s new gone : list tag) : list tag :=
  filter (fun x => negb (existsb (Nat.eqb x) gone)) (fold_left (fun acc x => tag_add x acc) new s).

(* the on_test callback *)
Record cb := { cb_test : test; cb_status : option nat; cb_start : option nat; cb_stop : option nat;
               cb_tags : list tag; cb_details : option details }.

(* TestByTestResult: the TagContext chain of TestResult (current set, then the parents' sets),
   the time last given, and the per-test attributes *)
Record bt := { b_cur : list tag; b_parents : list (list tag); b_now : option nat;
               b_start : option nat; b_status : option nat; b_details : option details }.
Definition bt_init : bt :=
  {| b_cur := []; b_parents := []; b_now := None; b_start := None; b_status := None; b_details := None |}.

Definition bt_word_err (k : ekind) : nat :=
  match k with
  | KError => Gen.Bytest.bt_word_addError
  | KFailure => Gen.Bytest.bt_word_addFailure
  | KXFail => Gen.Bytest.bt_word_addExpectedFailure
  end.
Definition bt_word_ok (k : okind) : nat :=
  match k with
  | KSuccess => Gen.Bytest.bt_word_addSuccess
  | KUxSuccess => Gen.Bytest.bt_word_addUnexpectedSuccess
  end.

Definition bt_set (s : bt) (st : option nat) (d : option details) : bt :=
  {| b_cur := b_cur s; b_parents := b_parents s; b_now := b_now s; b_start := b_start s;
     b_status := st; b_details := d |}.

Definition bt_step (s : bt) (c : call) : bt * list cb :=
  match c with
  | StartTestRun =>     (* TestResult.startTestRun: fresh TagContext, __now = None *)
      ({| b_cur := []; b_parents := []; b_now := None; b_start := b_start s; b_status := b_status s;
          b_details := b_details s |}, [])
  | Tags n g =>
      ({| b_cur := change_tags (b_cur s) n g; b_parents := b_parents s; b_now := b_now s; b_start := b_start s;
          b_status := b_status s; b_details := b_details s |}, [])
  | Time t =>
      ({| b_cur := b_cur s; b_parents := b_parents s; b_now := Some t; b_start := b_start s;
          b_status := b_status s; b_details := b_details s |}, [])
  | StartTest _ =>      (* TagContext(self._tags); _start_time = _now(); _status = _details = None *)
      ({| b_cur := b_cur s; b_parents := b_cur s :: b_parents s; b_now := b_now s; b_start := b_now s;
          b_status := None; b_details := None |}, [])
  | StopTest t =>       (* _stop_time = _now(); tags = set(current_tags); pop; on_test(...) *)
      ({| b_cur := match b_parents s with [] => b_cur s | p :: _ => p end;
          b_parents := tl (b_parents s); b_now := b_now s; b_start := b_start s;
          b_status := b_status s; b_details := b_details s |},
       [{| cb_test := t; cb_status := b_status s; cb_start := b_start s; cb_stop := b_now s;
           cb_tags := b_cur s; cb_details := b_details s |}])
  | AddErr k t a =>     (* _err_to_details: details if given, else {"traceback": TracebackContent(err, test)} *)
      (bt_set s (Some (bt_word_err k))
              (Some match a with inr d => d | inl e => [(n_traceback, DTb e)] end), [])
  | AddSkip t a =>      (* details, or {"reason": text_content(reason)} *)
      (bt_set s (Some Gen.Bytest.bt_word_addSkip)
              (Some match a with inr d => d | inl r => [(n_reason, DText r)] end), [])
  | AddOk k t d => (bt_set s (Some (bt_word_ok k)) d, [])
  | StopTestRun | Progress _ _ | Stop | Done => (s, [])
  end.

Fixpoint bt_run (s : bt) (cs : list call) : list cb :=
  match cs with
  | [] => []
  | c :: r => let '(s', out) := bt_step s c in out ++ bt_run s' r
  end.

(* ---------- a whole run ---------- *)
Inductive leaf_obs := OLog (l : list call) | OCbs (l : list cb).

Definition leaf_run (h : list call) (p : path) : leaf_obs :=
  let cs := through (fst p) (snd p) h in
  match snd p with
  | LfTarget cp => OLog (target_log cp cs)
  | LfByTest _ => OCbs (bt_run bt_init cs)
  end.

(* ---------- an on_test that raises ---------- *)
(* TestByTestResult.stopTest: _stop_time, tags = set(current_tags), super().stopTest(test) (the test's
   TagContext is popped), THEN on_test(...): what on_test raises comes out of stopTest after the result has
   left the test.  ExtendedToOriginalDecorator, TestResultDecorator and Tagger pass it on; MultiTestResult
   ._dispatch is a generator expression inside tuple(): the exception ends it, the members after the one that
   raised are not called. *)
Definition leaf_bad (lf : leaf) (t : test) : bool :=
  match lf with LfByTest bad => existsb (Nat.eqb (tid t)) bad | LfTarget _ => false end.
(* the call does not come back from one of these results *)
Definition aborts (before : list path) (c : call) : bool :=
  match c with StopTest t => existsb (fun p => leaf_bad (snd p) t) before | _ => false end.
(* the part of the history made on a result that is dispatched to after the results [before] *)
Definition reaching (before : list path) (h : list call) : list call := filter (fun c => negb (aborts before c)) h.

Fixpoint run_leaves (before rest : list path) (h : list call) : list leaf_obs :=
  match rest with
  | [] => []
  | p :: r => leaf_run (reaching before h) p :: run_leaves (before ++ [p]) r h
  end.

(* every call of the history is made on the top of the stack; one that raises is noted with
   its position; an AttributeError delivers nothing (see [raises]), a faulty on_test has been called *)
Fixpoint raised_from (a : adapter) (k : nat) (h : list call) : list (nat * exn) :=
  match h with
  | [] => []
  | c :: r => match raises a c with
              | Some e => (k, e) :: raised_from a (S k) r
              | None => if aborts (paths a) c then (k, CallbackError) :: raised_from a (S k) r
                        else raised_from a (S k) r
              end
  end.

Definition run (a : adapter) (h : list call) : list leaf_obs * list (nat * exn) :=
  (run_leaves [] (paths a) h, raised_from a 0 h).
