(* Model of the mime-type round trip used by the stream converters:
     render = ContentType.__repr__            (testtools/content_type.py)
     parse  = the fragment of _make_content_type (testtools/testresult/real.py; email header parsing)
              that handles what render produces: type "/" subtype, then parameters
              `; name="value"` (or `; name=token`), the ',' cut of charset.
   Validated domain (wf_ct): lower-case token type, subtype and parameter names,
   parameter values of printable ASCII without double quote and backslash and
   without an RFC 2047 opener "=?"; charset without ','.  Outside it the real
   parser un-escapes, decodes and lower-cases (finding F16, property C16); the
   generators of C09 stay inside.  Executable definitions only. *)
From Coq Require Import String Ascii.
From TT Require Import Lib.Base Lib.Sort Lib.Bytestr.
Open Scope string_scope.

Record ctype := CType { ct_type : string; ct_sub : string; ct_params : list (string * string) }.

(* ---------- render ---------- *)
Definition dq : ascii := """"%char.
Definition render_item (kv : string * string) : string :=
  fst kv ++ String "="%char (String dq (snd kv ++ String dq "")).

(* "; " + "; ".join(items), as items each preceded by "; " *)
Fixpoint tail_of (items : list string) : string :=
  match items with
  | [] => ""
  | it :: r => String ";"%char (String " "%char (it ++ tail_of r))
  end.

(* sorted(...) on the rendered items: str comparison = byte-wise on the UTF-8 encoding *)
Definition render (ct : ctype) : string :=
  ct_type ct ++ String "/"%char (ct_sub ct ++ tail_of (isort String.leb (map render_item (ct_params ct)))).

(* ---------- parse ---------- *)
Fixpoint has_char (c : ascii) (s : string) : bool :=
  match s with
  | EmptyString => false
  | String x r => Ascii.eqb x c || has_char c r
  end.

(* the longest prefix without c, and the rest (which is empty or starts with c) *)
Fixpoint span_not (c : ascii) (s : string) : string * string :=
  match s with
  | EmptyString => ("", "")
  | String x r => if Ascii.eqb x c then ("", s) else let (p, q) := span_not c r in (String x p, q)
  end.

(* split at the first c: (before, after), None when there is no c *)
Fixpoint break_at (c : ascii) (s : string) : option (string * string) :=
  match s with
  | EmptyString => None
  | String x r => if Ascii.eqb x c then Some ("", r)
                  else match break_at c r with Some (p, q) => Some (String x p, q) | None => None end
  end.

Fixpoint skip_spaces (s : string) : string :=
  match s with
  | String x r => if Ascii.eqb x " "%char then skip_spaces r else s
  | EmptyString => s
  end.

(* parameters: s is empty or starts with ';' *)
Fixpoint pparams (fuel : nat) (s : string) : list (string * string) :=
  match fuel with
  | 0 => []
  | S f =>
      match s with
      | String x r =>
          if Ascii.eqb x ";"%char then
            match break_at "="%char (skip_spaces r) with
            | None => []
            | Some (k, r1) =>
                match r1 with
                | String y r2 =>
                    if Ascii.eqb y dq then
                      match break_at dq r2 with
                      | Some (v, r3) => (k, v) :: pparams f r3
                      | None => []
                      end
                    else let (v, r3) := span_not ";"%char r1 in (k, v) :: pparams f r3
                | EmptyString => [(k, "")]
                end
            end
          else []
      | EmptyString => []
      end
  end.

(* parameters["charset"] is cut at the first ',' *)
Definition cut_comma (kv : string * string) : string * string :=
  if String.eqb (fst kv) "charset" then (fst kv, fst (span_not ","%char (snd kv))) else kv.

Definition parse (s : string) : ctype :=
  let (ts, rest) := span_not ";"%char s in
  let (t, sub) := match break_at "/"%char ts with Some p => p | None => (ts, "") end in
  CType t sub (map cut_comma (pparams (S (String.length rest)) rest)).

Definition octet_stream : ctype := CType "application" "octet-stream" [].
(* _make_content_type(mime_type) *)
Definition parse_opt (m : option string) : ctype :=
  match m with Some s => parse s | None => octet_stream end.

(* ---------- comparing content types ---------- *)
(* ContentType.__eq__ compares the parameter dicts: order does not matter *)
Fixpoint plookup (k : string) (ps : list (string * string)) : option string :=
  match ps with
  | [] => None
  | (k', v) :: r => if String.eqb k k' then Some v else plookup k r
  end.
Definition params_sub (a b : list (string * string)) : bool :=
  forallb (fun kv => option_eqb String.eqb (plookup (fst kv) b) (Some (snd kv))) a.
Definition ct_same (a b : ctype) : bool :=
  String.eqb (ct_type a) (ct_type b) && String.eqb (ct_sub a) (ct_sub b)
  && params_sub (ct_params a) (ct_params b) && params_sub (ct_params b) (ct_params a).

(* structural equality, and the normal form the correspondence compares: parameters sorted by name *)
Definition param_eqb : string * string -> string * string -> bool := pair_eqb String.eqb String.eqb.
Definition ctype_eqb (a b : ctype) : bool :=
  String.eqb (ct_type a) (ct_type b) && String.eqb (ct_sub a) (ct_sub b)
  && list_eqb param_eqb (ct_params a) (ct_params b).
Definition key_leb (a b : string * string) : bool := String.leb (fst a) (fst b).
Definition norm_ct (c : ctype) : ctype := CType (ct_type c) (ct_sub c) (isort key_leb (ct_params c)).

(* ---------- the validated domain ---------- *)
Definition in_range (lo hi : nat) (c : ascii) : bool := Nat.leb lo (nat_of_ascii c) && Nat.leb (nat_of_ascii c) hi.
(* a-z 0-9 - . + _ *)
Definition tok_char (c : ascii) : bool :=
  in_range 97 122 c || in_range 48 57 c
  || Ascii.eqb c "-"%char || Ascii.eqb c "."%char || Ascii.eqb c "+"%char || Ascii.eqb c "_"%char.
(* printable ASCII except double quote and backslash *)
Definition val_char (c : ascii) : bool :=
  in_range 32 126 c && negb (Ascii.eqb c dq) && negb (Ascii.eqb c "\"%char).

Fixpoint all_chars (p : ascii -> bool) (s : string) : bool :=
  match s with EmptyString => true | String x r => p x && all_chars p r end.
Definition token (s : string) : bool := negb (sempty s) && all_chars tok_char s.
(* no "=?" inside *)
Fixpoint no_encoded_word (s : string) : bool :=
  match s with
  | String x ((String y _) as r) => negb (Ascii.eqb x "="%char && Ascii.eqb y "?"%char) && no_encoded_word r
  | _ => true
  end.
Definition wf_param (kv : string * string) : bool :=
  token (fst kv) && all_chars val_char (snd kv) && no_encoded_word (snd kv)
  && (if String.eqb (fst kv) "charset" then negb (has_char ","%char (snd kv)) else true).
Fixpoint distinct (l : list string) : bool :=
  match l with [] => true | x :: r => negb (existsb (String.eqb x) r) && distinct r end.
Definition wf_ct (c : ctype) : bool :=
  token (ct_type c) && token (ct_sub c) && forallb wf_param (ct_params c) && distinct (map fst (ct_params c)).
