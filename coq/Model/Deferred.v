(* Model of twisted.internet.defer.Deferred as far as testtools.twistedsupport's
   matchers use it (C20): a Deferred is unfired, fired with a value or failed
   with an exception; it has a chain of (callback, errback) pairs; callbacks run
   as soon as a result is available (_runCallbacks); the "handled" flag of the
   property is DebugInfo.failResult being cleared, i.e. the current result not
   being a Failure.  Callbacks are drawn from a small language (pass through,
   constant, raise, record what was seen); they never return Deferreds, so
   chaining/pausing is not modelled.  Definitions only. *)
From TT Require Import Lib.Base.

(* values are tokens; 0 is None *)
Inductive dres := RVal (v : nat) | RErr (e : nat).    (* a value, or a Failure wrapping exception e *)

Inductive cbfun :=
| CPass                 (* return the argument unchanged (Twisted's passthru) *)
| CConst (v : nat)      (* return v *)
| CRaise (e : nat)      (* raise exception e *)
| CRec (tag : nat)      (* note what was seen, return it unchanged *)
| CRecNone (tag : nat). (* note what was seen, return None *)

Definition cbpair := (cbfun * cbfun)%type.            (* (callback, errback) *)

Record deferred := mkD {
  d_called : bool;
  d_result : option dres;                             (* current result *)
  d_callbacks : list cbpair                           (* pending chain *)
}.
Definition new_deferred := mkD false None [].

Definition log := list (nat * dres).                  (* what the recording callbacks saw, in order *)

Definition apply_cb (f : cbfun) (x : dres) (lg : log) : dres * log :=
  match f with
  | CPass => (x, lg)
  | CConst v => (RVal v, lg)
  | CRaise e => (RErr e, lg)
  | CRec t => (x, lg ++ [(t, x)])
  | CRecNone t => (RVal 0, lg ++ [(t, x)])
  end.

Definition step_cb (p : cbpair) (x : dres) (lg : log) : dres * log :=
  match x with
  | RVal _ => apply_cb (fst p) x lg
  | RErr _ => apply_cb (snd p) x lg
  end.

Fixpoint run_cbs (cbs : list cbpair) (x : dres) (lg : log) : dres * log :=
  match cbs with
  | [] => (x, lg)
  | p :: r => let '(y, lg') := step_cb p x lg in run_cbs r y lg'
  end.

(* Deferred._runCallbacks *)
Definition run_callbacks (d : deferred) (lg : log) : deferred * log :=
  match d_result d with
  | Some x => let '(y, lg') := run_cbs (d_callbacks d) x lg in (mkD (d_called d) (Some y) [], lg')
  | None => (d, lg)
  end.

(* Deferred.addCallbacks *)
Definition add_callbacks (p : cbpair) (d : deferred) (lg : log) : deferred * log :=
  run_callbacks (mkD (d_called d) (d_result d) (d_callbacks d ++ [p])) lg.

(* Deferred.callback / errback: None = AlreadyCalledError *)
Definition fire (x : dres) (d : deferred) (lg : log) : option (deferred * log) :=
  if d_called d then None
  else Some (run_callbacks (mkD true (Some x) (d_callbacks d)) lg).

(* what inspection of the object shows *)
Inductive dstate := SUnfired | SVal (v : nat) | SErr (e : nat).
Definition state_of (d : deferred) : dstate :=
  match d_result d with
  | None => SUnfired
  | Some (RVal v) => SVal v
  | Some (RErr e) => SErr e
  end.

(* would DebugInfo.__del__ log "Unhandled error in Deferred" if the Deferred were dropped now *)
Definition unhandled (d : deferred) : bool :=
  match d_result d with Some (RErr _) => true | _ => false end.
Definition handled (d : deferred) : bool := negb (unhandled d).
