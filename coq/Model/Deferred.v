(* Model of twisted.internet.defer.Deferred as far as testtools.twistedsupport's
   matchers use it (C20): a Deferred is unfired, or fired; a fired one either has
   a current result (a value or a Failure) or has none yet because its callback
   chain is paused (pause()) or waits for an unfired Deferred that a callback
   returned; it has a chain of (callback, errback) pairs; callbacks run as soon as
   a result is available and the chain is not paused (_runCallbacks); the
   "handled" flag of the property is DebugInfo.failResult being clear.
   Callbacks are drawn from a small language (pass through, constant, raise,
   record what was seen, return a fresh unfired Deferred).  Definitions only. *)
From TT Require Import Lib.Base.

(* values are tokens; 0 is None *)
Inductive dres := RVal (v : nat) | RErr (e : nat).    (* a value, or a Failure wrapping exception e *)

Inductive cbfun :=
| CPass                 (* return the argument unchanged (Twisted's passthru) *)
| CConst (v : nat)      (* return v *)
| CRaise (e : nat)      (* raise exception e *)
| CRec (tag : nat)      (* note what was seen, return it unchanged *)
| CRecNone (tag : nat)  (* note what was seen, return None *)
| CWait.                (* return a fresh unfired Deferred: the chain waits until it fires (see resume) *)

Definition cbpair := (cbfun * cbfun)%type.            (* (callback, errback) *)

Record deferred := mkD {
  d_called : bool;
  d_result : option dres;                             (* current result (None: unfired, or waiting) *)
  d_callbacks : list cbpair;                          (* pending chain *)
  d_paused : nat;                                     (* explicit pause() count *)
  d_waiting : bool;                                   (* chained to an unfired Deferred returned by a callback *)
  d_debugfail : bool                                  (* DebugInfo.failResult is set *)
}.
Definition new_deferred := mkD false None [] 0 false false.

Definition log := list (nat * dres).                  (* what the recording callbacks saw, in order *)

Definition is_rerr (x : dres) : bool := match x with RErr _ => true | RVal _ => false end.

(* None: the function returned an unfired Deferred *)
Definition apply_cb (f : cbfun) (x : dres) (lg : log) : option dres * log :=
  match f with
  | CPass => (Some x, lg)
  | CConst v => (Some (RVal v), lg)
  | CRaise e => (Some (RErr e), lg)
  | CRec t => (Some x, lg ++ [(t, x)])
  | CRecNone t => (Some (RVal 0), lg ++ [(t, x)])
  | CWait => (None, lg)
  end.

Definition step_cb (p : cbpair) (x : dres) (lg : log) : option dres * log :=
  match x with
  | RVal _ => apply_cb (fst p) x lg
  | RErr _ => apply_cb (snd p) x lg
  end.

(* run the chain: (Some last result | None = now waiting, callbacks left, log) *)
Fixpoint run_cbs (cbs : list cbpair) (x : dres) (lg : log) : option dres * list cbpair * log :=
  match cbs with
  | [] => (Some x, [], lg)
  | p :: r => match step_cb p x lg with
              | (Some y, lg') => run_cbs r y lg'
              | (None, lg') => (None, r, lg')
              end
  end.

(* a result can be handed to callbacks right now *)
Definition runnable (d : deferred) : bool :=
  d_called d && Nat.eqb (d_paused d) 0 && negb (d_waiting d).

(* Deferred._runCallbacks: nothing while paused / waiting / unfired; at the end the DebugInfo
   remembers a Failure result *)
Definition run_callbacks (d : deferred) (lg : log) : deferred * log :=
  if runnable d then
    match d_result d with
    | Some x =>
        match run_cbs (d_callbacks d) x lg with
        | (Some y, rest, lg') => (mkD true (Some y) rest 0 false (is_rerr y), lg')
        | (None, rest, lg') => (mkD true None rest 0 true false, lg')
        end
    | None => (d, lg)
    end
  else (d, lg).

(* Deferred.addCallbacks *)
Definition add_callbacks (p : cbpair) (d : deferred) (lg : log) : deferred * log :=
  run_callbacks (mkD (d_called d) (d_result d) (d_callbacks d ++ [p]) (d_paused d) (d_waiting d) (d_debugfail d)) lg.

(* Deferred.callback / errback: None = AlreadyCalledError *)
Definition fire (x : dres) (d : deferred) (lg : log) : option (deferred * log) :=
  if d_called d then None
  else Some (run_callbacks (mkD true (Some x) (d_callbacks d) (d_paused d) (d_waiting d) (d_debugfail d)) lg).

(* Deferred.pause / unpause (the harness calls unpause only after a pause of its own) *)
Definition pause (d : deferred) : deferred :=
  mkD (d_called d) (d_result d) (d_callbacks d) (S (d_paused d)) (d_waiting d) (d_debugfail d).
Definition unpause (d : deferred) (lg : log) : deferred * log :=
  match d_paused d with
  | 0 => (d, lg)
  | S k => run_callbacks (mkD (d_called d) (d_result d) (d_callbacks d) k (d_waiting d) (d_debugfail d)) lg
  end.

(* the Deferred the chain is waiting for fires with x: its result is handed over and the chain goes on *)
Definition resume (x : dres) (d : deferred) (lg : log) : deferred * log :=
  if d_waiting d
  then run_callbacks (mkD (d_called d) (Some x) (d_callbacks d) (d_paused d) false (d_debugfail d)) lg
  else (d, lg).

(* what inspection of the object shows *)
Inductive dstate :=
| SUnfired
| SWaiting              (* callback()/errback() was called, but no result is available: paused or chained *)
| SVal (v : nat)
| SErr (e : nat).
Definition state_of (d : deferred) : dstate :=
  if negb (d_called d) then SUnfired
  else if negb (runnable d) then SWaiting
  else match d_result d with
       | Some (RVal v) => SVal v
       | Some (RErr e) => SErr e
       | None => SWaiting
       end.

(* would DebugInfo.__del__ log "Unhandled error in Deferred" if the Deferred were dropped now *)
Definition unhandled (d : deferred) : bool := d_debugfail d.
Definition handled (d : deferred) : bool := negb (unhandled d).
