(* Literals of the generated C08 case files: a run of printable ASCII characters of a text or of a detail name is
   written as a string literal (parsing a list of unary nat numerals is what made the shards slow); the harness
   writes every other character as its code point:  T "ab" ++ [233] ++ T "c" = [97; 98; 233; 99].
   Imported by the case shards only (it exports Coq's String for the %string key). *)
From Coq Require Export String.
From Coq Require Ascii.
From TT Require Import Lib.Base Model.Adapters.

Fixpoint T (s : string) : text :=
  match s with
  | EmptyString => []
  | String a r => Ascii.nat_of_ascii a :: T r
  end.
