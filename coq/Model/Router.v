(* Model of testtools/testresult/real.py: StreamResultRouter (__init__, startTestRun,
   stopTestRun, status, add_rule, _map_route_code_prefix, _map_test_id) and
   StreamToQueue.route_code.  Executable definitions only.

   Route codes are [option (list seg)]: None, or the '/'-separated segments of
   the string.  A segment stands for a non-empty '/'-free string (the harness
   maps segment names of different lengths to small numbers); the string level
   (split("/")[0], the slice [len(prefix)+1:], routing_code + "/" + route_code)
   is modelled separately at the end of this file on lists of character codes
   and related to the segment level in Proof/C18.v. *)
From TT Require Import Lib.Base.

Definition seg := nat.
Definition route := option (list seg).
Definition sink := nat.                 (* identity of a sink object *)

(* the keyword arguments of StreamResult.status, fields mapped to small numbers *)
Record event := Ev {
  e_id : option nat;
  e_status : option nat;
  e_tags : option (list nat);
  e_runnable : bool;
  e_file : option nat;
  e_bytes : option (list nat);
  e_eof : bool;
  e_mime : option nat;
  e_route : route;
  e_ts : option nat }.

Definition set_route (e : event) (r : route) : event :=
  {| e_id := e_id e; e_status := e_status e; e_tags := e_tags e; e_runnable := e_runnable e;
     e_file := e_file e; e_bytes := e_bytes e; e_eof := e_eof e; e_mime := e_mime e;
     e_route := r; e_ts := e_ts e |}.

(* ---- StreamToQueue.route_code (real.py, "Adjust route_code on the way through") ---- *)
Definition route_code (code : seg) (r : route) : route :=
  match r with
  | None => Some [code]
  | Some l => Some (code :: l)
  end.

(* StreamToQueue(queue, None): ConcurrentStreamTestSuite documents a sub-suite's route code as "None or a
   string"; with no routing code there is nothing to prefix and the event's own code is handed on unchanged
   (None stays None: `return self.routing_code`). *)
Definition route_code_opt (code : option seg) (r : route) : route :=
  match code with
  | Some c => route_code c r
  | None => r
  end.

(* an event that passes through StreamToQueue(q, c1), whose queue is drained into
   StreamToQueue(q', c2), ... : codes innermost first *)
Definition push_all (via : list seg) (r : route) : route :=
  fold_left (fun r c => route_code c r) via r.

(* ---- the pieces of StreamResultRouter.status ---- *)
(* prefix = route_code.split("/")[0] if route_code is not None else None *)
Definition first_seg (r : route) : option seg :=
  match r with
  | Some (s :: _) => Some s
  | _ => None
  end.

(* route_code = route_code[len(prefix) + 1:]; if not route_code: route_code = None *)
Definition strip_first (r : route) : route :=
  match r with
  | Some (_ :: s :: rest) => Some (s :: rest)
  | _ => None
  end.

(* dicts: association lists in insertion order; d[k] = v keeps the position of an existing key *)
Fixpoint get {K V} (eqb : K -> K -> bool) (k : K) (d : list (K * V)) : option V :=
  match d with
  | [] => None
  | (k', v) :: r => if eqb k k' then Some v else get eqb k r
  end.
Fixpoint put {K V} (eqb : K -> K -> bool) (k : K) (v : V) (d : list (K * V)) : list (K * V) :=
  match d with
  | [] => [(k, v)]
  | (k', v') :: r => if eqb k k' then (k', v) :: r else (k', v') :: put eqb k v r
  end.

Definition id_eqb : option nat -> option nat -> bool := option_eqb Nat.eqb.

Record router := {
  r_fallback : option sink;
  r_prefixes : list (seg * (sink * bool));    (* _route_code_prefixes: prefix -> (sink, consume_route) *)
  r_ids : list (option nat * sink);           (* _test_ids *)
  r_sinks : list sink;                        (* _sinks: who gets startTestRun/stopTestRun *)
  r_in_run : bool }.

(* __init__(fallback, do_start_stop_run) *)
Definition init (fb : option sink) (ss : bool) : router :=
  {| r_fallback := fb; r_prefixes := []; r_ids := [];
     r_sinks := match fb with Some s => if ss then [s] else [] | None => [] end;
     r_in_run := false |}.

(* status(kwargs): the chosen target and the keyword arguments it is called with;
   None: target is the absent fallback, `None.status` raises. *)
Definition route_status (r : router) (e : event) : option (sink * event) :=
  match (match first_seg (e_route e) with
         | Some p => get Nat.eqb p (r_prefixes r)
         | None => None                       (* None is never a key: add_rule rejects it *)
         end) with
  | Some (target, consume) =>
      Some (target, if consume then set_route e (strip_first (e_route e)) else e)
  | None =>
      match get id_eqb (e_id e) (r_ids r) with
      | Some target => Some (target, e)
      | None => match r_fallback r with
                | Some target => Some (target, e)
                | None => None
                end
      end
  end.

Inductive call := StartRun | StopRun | St (e : event).
Definition delivery := (sink * call)%type.

(* one call made on the router (Status: through a chain of StreamToQueue objects
   with the given routing codes, innermost first, each queue drained at once) *)
Inductive op :=
| AddPrefix (s : sink) (p : seg) (consume ss : bool)   (* add_rule(s, 'route_code_prefix', route_prefix=p, consume_route=.., do_start_stop_run=ss) *)
| AddId (s : sink) (t : option nat) (ss : bool)        (* add_rule(s, 'test_id', test_id=t, do_start_stop_run=ss) *)
| Start
| Stop
| Status (via : list seg) (e : event)
| AddRej (s : sink) (why : nat) (ss : bool).           (* an add_rule call that is rejected: ValueError for an unknown policy, or the
                                                          policy method raises TypeError (policy_args do not bind: missing / foreign
                                                          keyword; `"/" in route_prefix` is true or itself raises; unhashable test id).
                                                          `why` numbers the concrete call in the harness table REJECTS; both raise
                                                          points lie BEFORE the first assignment to the router's fields. *)

Definition with_rules (r : router) pre ids : router :=
  {| r_fallback := r_fallback r; r_prefixes := pre; r_ids := ids; r_sinks := r_sinks r; r_in_run := r_in_run r |}.
Definition with_run (r : router) (b : bool) : router :=
  {| r_fallback := r_fallback r; r_prefixes := r_prefixes r; r_ids := r_ids r; r_sinks := r_sinks r; r_in_run := b |}.

(* the tail of add_rule:
     if do_start_stop_run:
         self._sinks.append(sink)
         if self._in_run: sink.startTestRun() *)
Definition register (r : router) (s : sink) (ss : bool) : router * list delivery :=
  if ss then
    ({| r_fallback := r_fallback r; r_prefixes := r_prefixes r; r_ids := r_ids r;
        r_sinks := r_sinks r ++ [s]; r_in_run := r_in_run r |},
     if r_in_run r then [(s, StartRun)] else [])
  else (r, []).

Definition pushed (via : list seg) (e : event) : event := set_route e (push_all via (e_route e)).

(* new state, did the call raise, what was delivered (in delivery order) *)
Definition step (r : router) (o : op) : router * (bool * list delivery) :=
  match o with
  | AddPrefix s p c ss =>
      let (r', d) := register (with_rules r (put Nat.eqb p (s, c) (r_prefixes r)) (r_ids r)) s ss in
      (r', (false, d))
  | AddId s t ss =>
      let (r', d) := register (with_rules r (r_prefixes r) (put id_eqb t s (r_ids r))) s ss in
      (r', (false, d))
  | Start => (with_run r true, (false, map (fun s => (s, StartRun)) (r_sinks r)))
  | Stop => (with_run r false, (false, map (fun s => (s, StopRun)) (r_sinks r)))
  | Status via e =>
      match route_status r (pushed via e) with
      | Some (t, e') => (r, (false, [(t, St e')]))
      | None => (r, (true, []))
      end
  | AddRej _ _ _ => (r, (true, []))     (* raises before the dictionaries, _sinks are touched and before sink.startTestRun() *)
  end.

Fixpoint run (r : router) (l : list op) : list (bool * list delivery) :=
  match l with
  | [] => []
  | o :: rest => let (r', out) := step r o in out :: run r' rest
  end.

(* ---------- add_rule called from inside a sink's startTestRun while the run is being opened ----------
   StreamResultRouter.startTestRun is `for sink in self._sinks: sink.startTestRun()` followed by `self._in_run = True`:
   a loop over the LIVE list.  When the sink at position k reacts to its startTestRun by making the accepted
   add_rule calls `adds`, the sinks they register are appended to the list the loop is walking. *)
Definition is_add (o : op) : bool :=
  match o with AddPrefix _ _ _ _ | AddId _ _ _ => true | _ => false end.
Definition apply_adds (r : router) (adds : list op) : router := fold_left (fun r o => fst (step r o)) adds r.
Definition adds_out (r : router) (adds : list op) : list (bool * list delivery) := run r adds.

Definition start_reentrant (r : router) (k : nat) (adds : list op) : router * (bool * list delivery) :=
  let r' := apply_adds r adds in                        (* made when the loop has reached position k *)
  (with_run r' true,
   (false, map (fun s => (s, StartRun)) (firstn (S k) (r_sinks r))             (* positions 0..k: before the reaction *)
           ++ map (fun s => (s, StartRun)) (skipn (S k) (r_sinks r')))).       (* the loop goes on over the list as it is NOW *)

(* an event pushed through StreamToQueue objects and popped again by a chain of
   routers, one per code (outermost first), each with one consuming rule that
   leads to the next router; every router falls back to the final sink *)
Fixpoint pop_chain (codes : list seg) (e : event) : event :=
  match codes with
  | [] => e
  | c :: rest =>
      match route_status {| r_fallback := Some 0; r_prefixes := [(c, (1, true))]; r_ids := [];
                            r_sinks := []; r_in_run := false |} e with
      | Some (1, e') => pop_chain rest e'
      | Some (_, e') => e'
      | None => e
      end
  end.
Definition roundtrip (via : list seg) (e : event) : event := pop_chain (rev via) (pushed via e).

(* ---- the string level: route codes as lists of character codes ---- *)
Definition slash := 47.
Definition str := list nat.

Fixpoint render_segs (name : seg -> str) (l : list seg) : str :=
  match l with
  | [] => []
  | [s] => name s
  | s :: r => name s ++ slash :: render_segs name r
  end.
Definition render (name : seg -> str) (r : route) : option str := option_map (render_segs name) r.

(* s.split("/")[0] *)
Fixpoint str_head (s : str) : str :=
  match s with
  | [] => []
  | c :: r => if Nat.eqb c slash then [] else c :: str_head r
  end.
(* StreamToQueue.route_code on strings *)
Definition str_route_code (code : str) (r : option str) : option str :=
  match r with
  | None => Some code
  | Some s => Some (code ++ slash :: s)
  end.
(* the consuming branch of status on strings *)
Definition str_consume (r : option str) : option str :=
  match r with
  | None => None
  | Some s => match skipn (length (str_head s) + 1) s with
              | [] => None
              | t => Some t
              end
  end.
