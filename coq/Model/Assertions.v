(* Model of TestCase.assertThat / expectThat / _matchHelper / addDetailUniqueName
   (testcase.py:465-528), assertions.assert_that (assertions.py:11-26) and of the
   part of RunTest._run_core / _run_prepared_result that runs setUp, the test
   method, tearDown and the cleanups, turns force_failure into a failure once the
   test has finished and reports the exception caught last (runtest.py:96-193).  A matcher is represented by what
   its match() returns on the matchee: None, or a mismatch with its
   get_details() as (name, payload token) pairs.  Executable definitions only. *)
From Coq Require Import String DecimalString.
From TT Require Import Lib.Base.
Local Open Scope string_scope.

Definition detail := (string * nat)%type.          (* detail name, payload token (0 = not one of ours) *)

Fixpoint mem_str (s : string) (l : list string) : bool :=
  match l with [] => false | x :: r => String.eqb s x || mem_str s r end.

(* "%s-%d" % (name, suffix) *)
Definition suffixed (base : string) (k : nat) : string :=
  base ++ "-" ++ NilZero.string_of_uint (Nat.to_uint k).

(* addDetailUniqueName, testcase.py:476-494:
     full_name = name; suffix = 1
     while full_name in existing_details: full_name = "%s-%d" % (name, suffix); suffix += 1 *)
Fixpoint unique_from (fuel : nat) (existing : list string) (base full : string) (suffix : nat) : option string :=
  if negb (mem_str full existing) then Some full
  else match fuel with
       | 0 => None                                   (* OutOfFuel: excluded by unique_name_total *)
       | S f => unique_from f existing base (suffixed base suffix) (S suffix)
       end.
Definition unique_name (existing : list string) (base : string) : option string :=
  unique_from (length existing) existing base base 1.

Definition add_unique (ds : option (list detail)) (d : detail) : option (list detail) :=
  match ds with
  | None => None
  | Some l => match unique_name (map fst l) (fst d) with
              | Some full => Some (l ++ [(full, snd d)])%list
              | None => None
              end
  end.

(* what a statement of the test can raise: SkipTest (self.skipException), AssertionError
   (self.failureException; MismatchError is one), _ExpectedFailure, _UnexpectedSuccess, any other Exception *)
Inductive exck := XSkip | XFail | XXFail | XUXSuccess | XErr.

(* AssertThatFn = assertions.assert_that; Raise e = the statement raises e (skipTest, fail, expectFailure, raise ...) *)
Inductive akind := AssertThat | ExpectThat | AssertThatFn | Raise (e : exck).
Record step := { s_kind : akind; s_mis : option (list detail) }.      (* s_mis is not looked at for Raise *)

Inductive outcome := Success | Failure | Error | Skip | ExpFailure | UnexpSuccess | NoOutcome.

Record tstate := { t_details : option (list detail); t_forced : bool }.

(* _matchHelper: attach the mismatch's details under unique names; is there a MismatchError to raise? *)
Definition match_helper (st : tstate) (mis : option (list detail)) : tstate * bool :=
  match mis with
  | None => (st, false)
  | Some ds => ({| t_details := fold_left add_unique ds (t_details st); t_forced := t_forced st |}, true)
  end.

(* one user function (setUp, the test method, tearDown, one cleanup): returns the final state, for every
   executed statement whether it raised, and the exception that left the function, if any *)
Fixpoint run_body (st : tstate) (steps : list step) : tstate * list bool * option exck :=
  match steps with
  | [] => (st, [], None)
  | s :: r =>
      match s_kind s with
      | AssertThat =>
          let '(st', err) := match_helper st (s_mis s) in
          if err then (st', [true], Some XFail)
          else let '(st2, l, e) := run_body st' r in (st2, false :: l, e)
      | ExpectThat =>
          let '(st', err) := match_helper st (s_mis s) in
          let st'' := if err
                      then {| t_details := add_unique (t_details st') ("Failed expectation", 0); t_forced := true |}
                      else st' in
          let '(st2, l, e) := run_body st'' r in (st2, false :: l, e)
      | AssertThatFn =>
          match s_mis s with
          | Some _ => (st, [true], Some XFail)       (* raises MismatchError, attaches nothing *)
          | None => let '(st2, l, e) := run_body st r in (st2, false :: l, e)
          end
      | Raise e => (st, [true], Some e)
      end
  end.

Definition opt_list {A} (o : option A) : list A := match o with Some x => [x] | None => [] end.

(* RunTest._run_cleanups: every cleanup runs through _run_user, whatever the earlier ones raised
   (the argument is the list in the order of execution) *)
Fixpoint run_cleanups (st : tstate) (cs : list (list step)) : tstate * list (list bool) * list exck :=
  match cs with
  | [] => (st, [], [])
  | c :: r =>
      let '(st1, l, e) := run_body st c in
      let '(st2, ls, es) := run_cleanups st1 r in
      (st2, l :: ls, opt_list e ++ es)%list
  end.

(* TestCase.exception_handlers: which add* the handler of an exception calls *)
Definition outcome_of (e : exck) : outcome :=
  match e with
  | XSkip => Skip | XFail => Failure | XXFail => ExpFailure | XUXSuccess => UnexpSuccess | XErr => Error
  end.
(* _run_prepared_result: e = self._exceptions.pop() - the exception caught last decides (every exception of
   the modelled kinds is claimed by a handler); no exception: _run_core has called addSuccess *)
Definition final_outcome (excs : list exck) : outcome :=
  fold_left (fun _ e => outcome_of e) excs Success.

(* a test: details attached at the start of setUp, then the statements of setUp, of the test method, of
   tearDown, and the cleanups in the order of their registration (all registered at the start of setUp).
   p_setup_up / p_teardown_up: the number of statements of setUp / tearDown that stand before the upcall
   super().setUp() / super().tearDown() (all of them when the number exceeds the length). *)
Record prog := { p_pre : list detail; p_setup : list step; p_setup_up : nat; p_body : list step;
                 p_teardown : list step; p_teardown_up : nat; p_cleanups : list (list step) }.

Record trun := { r_raised : list (list bool); r_after_ran : bool; r_outcome : outcome;
                 r_details : option (list detail) }.

(* TestCase.setUp / TestCase.tearDown themselves (testcase.py:762-786; unittest's do nothing): they record that
   they were called and touch neither the details nor force_failure *)
Definition base_setup (st : tstate) : tstate := st.
Definition base_teardown (st : tstate) : tstate := st.

(* a setUp / tearDown override: [up] statements, the upcall if they did not raise, the other statements *)
Definition run_fn (base : tstate -> tstate) (st : tstate) (steps : list step) (up : nat)
  : tstate * list bool * option exck :=
  let '(st1, l1, e1) := run_body st (firstn up steps) in
  match e1 with
  | Some _ => (st1, l1, e1)
  | None => let '(st2, l2, e2) := run_body (base st1) (skipn up steps) in (st2, (l1 ++ l2)%list, e2)
  end.

(* RunTest._run_core (runtest.py:130-180).  setUp raised: the cleanups only.  Otherwise the test method, then
   tearDown and the cleanups (LIFO) whatever happened.  In both cases, if force_failure is set afterwards,
   _raise_force_fail_error goes through _run_user: its AssertionError is caught last. *)
Definition run_test (p : prog) : trun :=
  let st0 := {| t_details := Some (p_pre p); t_forced := false |} in
  let '(st1, l0, e0) := run_fn base_setup st0 (p_setup p) (p_setup_up p) in
  match e0 with
  | Some x =>
      let '(st4, ls, es) := run_cleanups st1 (rev (p_cleanups p)) in
      let forced := if t_forced st4 then [XFail] else [] in
      {| r_raised := l0 :: ls; r_after_ran := true;
         r_outcome := final_outcome (x :: es ++ forced)%list;
         r_details := t_details st4 |}
  | None =>
      let '(st2, l1, e1) := run_body st1 (p_body p) in
      let '(st3, l2, e2) := run_fn base_teardown st2 (p_teardown p) (p_teardown_up p) in
      let '(st4, ls, es) := run_cleanups st3 (rev (p_cleanups p)) in
      let forced := if t_forced st4 then [XFail] else [] in
      {| r_raised := l0 :: l1 :: l2 :: ls; r_after_ran := true;
         r_outcome := final_outcome (opt_list e1 ++ opt_list e2 ++ es ++ forced)%list;
         r_details := t_details st4 |}
  end.
