(* Model of TestCase.assertThat / expectThat / _matchHelper / addDetailUniqueName
   (testcase.py:465-528), assertions.assert_that (assertions.py:11-26) and of the
   part of RunTest._run_core that turns force_failure into a failure once the
   test has finished (runtest.py:150-176).  A matcher is represented by what
   its match() returns on the matchee: None, or a mismatch with its
   get_details() as (name, payload token) pairs.  Executable definitions only. *)
From Coq Require Import String DecimalString.
From TT Require Import Lib.Base.
Local Open Scope string_scope.

Definition detail := (string * nat)%type.          (* detail name, payload token (0 = not one of ours) *)

Fixpoint mem_str (s : string) (l : list string) : bool :=
  match l with [] => false | x :: r => String.eqb s x || mem_str s r end.

(* "%s-%d" % (name, suffix) *)
Definition suffixed (base : string) (k : nat) : string :=
  base ++ "-" ++ NilZero.string_of_uint (Nat.to_uint k).

(* addDetailUniqueName, testcase.py:476-494:
     full_name = name; suffix = 1
     while full_name in existing_details: full_name = "%s-%d" % (name, suffix); suffix += 1 *)
Fixpoint unique_from (fuel : nat) (existing : list string) (base full : string) (suffix : nat) : option string :=
  if negb (mem_str full existing) then Some full
  else match fuel with
       | 0 => None                                   (* OutOfFuel: excluded by unique_name_total *)
       | S f => unique_from f existing base (suffixed base suffix) (S suffix)
       end.
Definition unique_name (existing : list string) (base : string) : option string :=
  unique_from (length existing) existing base base 1.

Definition add_unique (ds : option (list detail)) (d : detail) : option (list detail) :=
  match ds with
  | None => None
  | Some l => match unique_name (map fst l) (fst d) with
              | Some full => Some (l ++ [(full, snd d)])%list
              | None => None
              end
  end.

Inductive akind := AssertThat | ExpectThat | AssertThatFn.      (* AssertThatFn = assertions.assert_that *)
Record step := { s_kind : akind; s_mis : option (list detail) }.

Inductive outcome := Success | Failure | Error | NoOutcome.

Record tstate := { t_details : option (list detail); t_forced : bool }.

(* _matchHelper: attach the mismatch's details under unique names; is there a MismatchError to raise? *)
Definition match_helper (st : tstate) (mis : option (list detail)) : tstate * bool :=
  match mis with
  | None => (st, false)
  | Some ds => ({| t_details := fold_left add_unique ds (t_details st); t_forced := t_forced st |}, true)
  end.

(* the test body: returns the final state, for every executed statement whether it raised, and
   whether the body was left by an exception *)
Fixpoint run_body (st : tstate) (steps : list step) : tstate * list bool * bool :=
  match steps with
  | [] => (st, [], false)
  | s :: r =>
      match s_kind s with
      | AssertThat =>
          let '(st', err) := match_helper st (s_mis s) in
          if err then (st', [true], true)
          else let '(st2, l, raised) := run_body st' r in (st2, false :: l, raised)
      | ExpectThat =>
          let '(st', err) := match_helper st (s_mis s) in
          let st'' := if err
                      then {| t_details := add_unique (t_details st') ("Failed expectation", 0); t_forced := true |}
                      else st' in
          let '(st2, l, raised) := run_body st'' r in (st2, false :: l, raised)
      | AssertThatFn =>
          match s_mis s with
          | Some _ => (st, [true], true)             (* raises MismatchError, attaches nothing *)
          | None => let '(st2, l, raised) := run_body st r in (st2, false :: l, raised)
          end
      end
  end.

(* RunTest._run_core: the body, then tearDown and cleanups whatever happened, then force_failure *)
Record trun := { r_raised : list bool; r_after_ran : bool; r_outcome : outcome; r_details : option (list detail) }.
Definition run_test (pre : list detail) (steps : list step) : trun :=
  let '(st, l, raised) := run_body {| t_details := Some pre; t_forced := false |} steps in
  {| r_raised := l;
     r_after_ran := true;
     r_outcome := if raised || t_forced st then Failure else Success;
     r_details := t_details st |}.
