(* Model of the stream decorators of testtools/testresult/real.py: CopyStreamResult,
   StreamTagger, TimestampingStreamResult, StreamFailFast, StreamToQueue (its queue
   drained at once into the next result), over recording sinks that keep the
   references they are given.  Executable definitions only.

   The test_tags argument is a REFERENCE: None, an immutable frozenset value, or a
   location in a store of mutable sets.  The caller owns the first cells of the
   store; StreamTagger allocates a new cell for the set it builds.  Sinks log the
   reference they receive; what a logged reference denotes is read off the store
   at the END of the run, so that any later mutation of a shared object shows
   (a caller-owned cell right after the call: Corr/C11.v).
   No decorator keeps state between calls: a history is ANY list of ops - several
   runs, repeated or unmatched startTestRun / stopTestRun, status outside a run,
   the caller re-using and changing its own set objects (OMutate) in between. *)
From TT Require Import Lib.Base Model.Router Gen.Failfast.

Definition tag := nat.
Definition tag_universe := 6.                      (* tags are numbers below this bound *)
Definition store := list (list tag).               (* cell -> the set it holds, as a sorted list *)

Inductive tagref := TNone | TFrozen (v : list tag) | TLoc (l : nat).
(* what a caller can supply as timestamp=.  No decorator looks inside it: a timezone-aware datetime
   (zone 0 = UTC, other numbers = other fixed offsets), a NAIVE datetime (tzinfo None), or something
   that is not a datetime at all (a placeholder such as 'F', 0, '' - falsy ones included).  The
   numbers index the harness's tables. *)
Inductive tsobj := TAware (zone day : nat) | TNaive (day : nat) | TOther (k : nat).
Inductive tsv := TsNone | TsGiven (t : tsobj) | TsFilled.    (* timestamp: absent (left out or None), supplied, filled in by a decorator *)

(* Route codes (Model/Router.v): None or the '/'-separated segments of the string.  Here a segment
   may also be the EMPTY string (the harness has a number for it): '' is Some [empty], '/' is
   Some [empty; empty], 'ab/' is Some [ab; empty].  A string never splits into no segments at all,
   so Some [] denotes nothing (excluded by Spec.C11.wf). *)

(* the arguments of StreamResult.status; T is the representation of test_tags *)
Record event (T : Type) := Evt {
  v_id : option nat;
  v_status : option nat;
  v_tags : T;
  v_runnable : bool;
  v_file : option nat;
  v_bytes : option (list nat);
  v_eof : bool;
  v_mime : option nat;
  v_route : route;
  v_ts : tsv }.
Arguments Evt {T}.
Arguments v_id {T}. Arguments v_status {T}. Arguments v_tags {T}. Arguments v_runnable {T}.
Arguments v_file {T}. Arguments v_bytes {T}. Arguments v_eof {T}. Arguments v_mime {T}.
Arguments v_route {T}. Arguments v_ts {T}.

Definition with_tags {T U} (e : event T) (t : U) : event U :=
  Evt (v_id e) (v_status e) t (v_runnable e) (v_file e) (v_bytes e) (v_eof e) (v_mime e) (v_route e) (v_ts e).
Definition with_route {T} (e : event T) (r : route) : event T :=
  Evt (v_id e) (v_status e) (v_tags e) (v_runnable e) (v_file e) (v_bytes e) (v_eof e) (v_mime e) r (v_ts e).
Definition with_ts {T} (e : event T) (t : tsv) : event T :=
  Evt (v_id e) (v_status e) (v_tags e) (v_runnable e) (v_file e) (v_bytes e) (v_eof e) (v_mime e) (v_route e) t.

(* ---- sets of tags as sorted duplicate-free lists ---- *)
Fixpoint mem (t : tag) (l : list tag) : bool :=
  match l with [] => false | x :: r => Nat.eqb t x || mem t r end.
Definition canon (p : tag -> bool) : list tag := filter p (seq 0 tag_universe).

(* what a reference denotes in a store *)
Definition deref (st : store) (r : tagref) : option (list tag) :=
  match r with
  | TNone => None
  | TFrozen v => Some v
  | TLoc l => Some (nth l st [])
  end.
(* `kwargs.get("test_tags") or ()` *)
Definition tags_or_empty (st : store) (r : tagref) : list tag :=
  match deref st r with Some v => v | None => [] end.

(* ---- the decorator tree ---- *)
Inductive node :=
| Sink                                            (* a recording StreamResult *)
| FailFast                                        (* StreamFailFast(on_error) with a recording callback *)
| Copy (targets : list node)                      (* CopyStreamResult(targets) *)
| Tagger (add discard : list tag) (targets : list node)   (* StreamTagger(targets, add, discard) *)
| Stamp (target : node)                           (* TimestampingStreamResult(target) *)
| ToQueue (code : option seg) (target : node).    (* StreamToQueue(queue, code), code a string or None, the queue drained into target *)

(* what a leaf logs: a sink the call it received (status arguments by reference),
   a StreamFailFast one mark per callback invocation *)
Inductive rentry := RStart | RStop | RSt (e : event tagref) | RFired.

(* StreamFailFast.status: `if test_status in (...)`, the tuple read from the live code (Gen/Failfast.v) *)
Definition fires (s : option nat) : bool :=
  match s with Some k => existsb (Nat.eqb k) failfast_statuses | None => failfast_on_none end.

(* TimestampingStreamResult.status: timestamp = kwargs.pop("timestamp", None); if None: now(utc) *)
Definition stamp (t : tsv) : tsv := match t with TsNone => TsFilled | x => x end.

(* StreamTagger.status:
     test_tags = set(kwargs.get("test_tags") or ())      -- a NEW set object
     test_tags.update(self.add); test_tags.difference_update(self.discard)
     kwargs["test_tags"] = test_tags or None *)
Definition tagged_value (add discard : list tag) (v : list tag) : list tag :=
  canon (fun t => (mem t v || mem t add) && negb (mem t discard)).

Definition deliver_list (deliver : node -> event tagref -> store -> list (list rentry) * store) :=
  fix go (ts : list node) (e : event tagref) (st : store) : list (list rentry) * store :=
    match ts with
    | [] => ([], st)
    | t :: r => let (o1, st1) := deliver t e st in
                let (o2, st2) := go r e st1 in
                (o1 ++ o2, st2)
    end.

(* one status call arriving at a node: for every leaf below it (left to right) what
   the leaf newly logged, and the store afterwards *)
Fixpoint deliver (n : node) (e : event tagref) (st : store) : list (list rentry) * store :=
  match n with
  | Sink => ([[RSt e]], st)
  | FailFast => ([if fires (v_status e) then [RFired] else []], st)
  | Copy ts => deliver_list deliver ts e st          (* _strict_map(methodcaller("status", *args, **kwargs), targets) *)
  | Tagger add discard ts =>
      let v := tagged_value add discard (tags_or_empty st (v_tags e)) in
      let l := length st in
      deliver_list deliver ts (with_tags e (match v with [] => TNone | _ => TLoc l end)) (st ++ [v])
  | Stamp t => deliver t (with_ts e (stamp (v_ts e))) st
  | ToQueue c t => deliver t (with_route e (route_code_opt c (v_route e))) st
  end.

(* startTestRun / stopTestRun arriving at a node: they carry no arguments, every
   decorator hands them on, StreamFailFast inherits StreamResult's no-op *)
Fixpoint signal (n : node) (r : rentry) : list (list rentry) :=
  match n with
  | Sink => [[r]]
  | FailFast => [[]]
  | Copy ts | Tagger _ _ ts => flat_map (fun t => signal t r) ts
  | Stamp t | ToQueue _ t => signal t r
  end.

(* what the caller does *)
Inductive op :=
| OStart | OStop
| OStatus (e : event tagref)
| OMutate (l : nat) (v : list tag).      (* the caller changes one of its own sets in place between calls *)

Fixpoint set_nth {A} (l : nat) (v : A) (st : list A) : list A :=
  match st, l with
  | [], _ => []
  | _ :: r, 0 => v :: r
  | x :: r, S k => x :: set_nth k v r
  end.

(* one (empty) list of new entries per leaf *)
Definition quiet (n : node) : list (list rentry) := map (fun _ => []) (signal n RStart).

Definition step (n : node) (o : op) (st : store) : list (list rentry) * store :=
  match o with
  | OStart => (signal n RStart, st)
  | OStop => (signal n RStop, st)
  | OStatus e => deliver n e st
  | OMutate l v => (quiet n, set_nth l v st)
  end.

(* per call: what every leaf newly logged (by reference) and the store after the call *)
Fixpoint run (n : node) (ops : list op) (st : store) : list (list (list rentry) * store) :=
  match ops with
  | [] => []
  | o :: r => let (out, st') := step n o st in (out, st') :: run n r st'
  end.

Definition final_store (n : node) (ops : list op) (st : store) : store :=
  last (map snd (run n ops st)) st.
