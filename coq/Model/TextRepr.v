(* Model of testtools.compat.text_repr (compat.py:70-110), of Python's
   str.__repr__ / bytes.__repr__, and of the evaluation of single- and
   triple-quoted string literals (what ast.literal_eval does with the output).
   Characters are code points (N); a bytes object is a list of values < 256.

   text_repr is modelled twice:
     [text_repr_lit]  a literal transliteration of the Python text: split, repr
                      of every line, slice, str.replace, join, the find/insert
                      loop for triple quotes (on fuel);
     [text_repr_tok]  the same function described per character: every
                      character is rendered on its own, and a single quote gets
                      a backslash iff two more single quotes follow immediately.
   The correspondence runs both against the implementation; the round trip is
   proved for [text_repr_tok] (and for repr, i.e. for every non-multiline call).
   Executable definitions only. *)
From TT Require Import Lib.Base.
Local Open Scope N_scope.

Definition BS : N := 92.   (* backslash *)
Definition SQ : N := 39.   (* ' *)
Definition DQ : N := 34.   (* double quote *)
Definition NL : N := 10.
Definition CR : N := 13.
Definition TAB : N := 9.

Fixpoint memN (c : N) (l : list N) : bool :=
  match l with [] => false | x :: r => N.eqb c x || memN c r end.

(* ---------- hexadecimal escapes ---------- *)
Definition hexdigit (d : N) : N := if N.ltb d 10 then 48 + d else 87 + d.    (* 0-9 a-f *)
Fixpoint hex (n : nat) (c : N) : list N :=                                 (* n digits, most significant first *)
  match n with
  | O => []
  | S n' => hex n' (N.div c 16) ++ [hexdigit (N.modulo c 16)]
  end.
Definition unhexdigit (h : N) : option N :=
  if N.leb 48 h && N.leb h 57 then Some (h - 48)
  else if N.leb 97 h && N.leb h 102 then Some (h - 87)
  else if N.leb 65 h && N.leb h 70 then Some (h - 55)
  else None.
Fixpoint unhex (acc : N) (l : list N) : option N :=
  match l with
  | [] => Some acc
  | h :: r => match unhexdigit h with Some d => unhex (acc * 16 + d) r | None => None end
  end.

(* ---------- repr ---------- *)
Section Repr.
  Variable isb : bool.                 (* bytes rather than str *)
  Variable nonprint : N -> bool.       (* not str.isprintable(), for code points >= 128 *)

  (* stands for itself in a repr *)
  Definition rawc (c : N) : bool :=
    if N.ltb c 128 then N.leb 32 c && N.ltb c 127
    else if isb then false else negb (nonprint c).

  Definition hexesc (c : N) : list N :=
    if isb || N.ltb c 256 then [BS; 120] ++ hex 2 c                       (* \xNN *)
    else if N.ltb c 65536 then [BS; 117] ++ hex 4 c                       (* \uNNNN *)
    else [BS; 85] ++ hex 8 c.                                             (* \UNNNNNNNN *)

  (* one character inside quotes q *)
  Definition esc (q c : N) : list N :=
    if N.eqb c BS then [BS; BS]
    else if N.eqb c q then [BS; q]
    else if N.eqb c TAB then [BS; 116]
    else if N.eqb c NL then [BS; 110]
    else if N.eqb c CR then [BS; 114]
    else if rawc c then [c]
    else hexesc c.

  Definition quote_for (s : list N) : N := if memN SQ s && negb (memN DQ s) then DQ else SQ.
  Definition prefix : list N := if isb then [98] else [].

  Definition repr (s : list N) : list N :=
    let q := quote_for s in prefix ++ [q] ++ flat_map (esc q) s ++ [q].

  (* ---------- text_repr, literally ---------- *)
  Fixpoint split_on (sep : N) (s cur : list N) : list (list N) :=       (* text.split(nl); cur reversed *)
    match s with
    | [] => [rev cur]
    | c :: r => if N.eqb c sep then rev cur :: split_on sep r [] else split_on sep r (c :: cur)
    end.
  (* str.replace of a two-character pattern [a; b] by [b] *)
  Fixpoint replace2 (a b : N) (s : list N) : list N :=
    match s with
    | x :: ((y :: t) as r) => if N.eqb x a && N.eqb y b then b :: replace2 a b t else x :: replace2 a b r
    | _ => s
    end.
  Fixpoint join (sep : list N) (ls : list (list N)) : list N :=
    match ls with
    | [] => []
    | [l] => l
    | l :: r => l ++ sep ++ join sep r
    end.
  (* _semi_done.find(three single quotes, p), as an offset from the current position *)
  Fixpoint find3 (s : list N) : option nat :=
    match s with
    | a :: ((b :: c :: _) as r) =>
        if N.eqb a SQ && N.eqb b SQ && N.eqb c SQ then Some O else option_map S (find3 r)
    | _ => None
    end.
  (* the while loop: p = find(three single quotes, p); insert a backslash at p; p += 2.
     [done] is the text before p (reversed), s the text from p on *)
  Fixpoint triple_loop (fuel : nat) (done s : list N) : list N :=
    match fuel with
    | O => rev done ++ s
    | S f =>
        match find3 s with
        | None => rev done ++ s
        | Some k =>
            (* s[:k] ++ backslash ++ s[k:], then continue two characters after the backslash's position *)
            let s' := BS :: skipn k s in
            triple_loop f (rev (firstn 2%nat s') ++ rev (firstn k s) ++ done) (skipn 2%nat s')
        end
    end.

  Definition line_body (line : list N) : list N :=
    let r := repr line in
    let q := last r 0 in
    replace2 BS q (skipn (length prefix + 1)%nat (removelast r)).

  Definition text_repr_lit (s : list N) (ml : option bool) : list N :=
    let multiline := match ml with Some b => b | None => memN NL s end in
    if negb multiline then repr s
    else
      let semi := join [NL] (map line_body (split_on NL s [])) ++ [SQ; SQ] in
      prefix ++ [SQ; SQ; SQ; BS; NL] ++ triple_loop (2 * length semi + 4)%nat [] semi ++ [SQ].

  (* ---------- text_repr, per character ---------- *)
  (* a single quote gets a backslash iff two more single quotes follow immediately *)
  Definition flag (c : N) (rest : list N) : bool :=
    N.eqb c SQ && match rest with a :: b :: _ => N.eqb a SQ && N.eqb b SQ | _ => false end.
  (* one character of a multiline body: both kinds of quote stand raw, newlines are real *)
  Definition esc_ml (c : N) (escaped : bool) : list N :=
    if N.eqb c SQ then (if escaped then [BS; SQ] else [SQ])
    else if N.eqb c DQ then [DQ]
    else if N.eqb c NL then [NL]
    else esc SQ c.
  Fixpoint body_ml (l : list N) : list N :=
    match l with
    | [] => []
    | c :: r => esc_ml c (flag c r) ++ body_ml r
    end.
  Definition text_repr_tok (s : list N) (ml : option bool) : list N :=
    let multiline := match ml with Some b => b | None => memN NL s end in
    if negb multiline then repr s
    else prefix ++ [SQ; SQ; SQ; BS; NL] ++ body_ml (s ++ [SQ; SQ]) ++ [SQ].
End Repr.

(* ---------- evaluating a literal ---------- *)
Definition is_none_q (q : option N) : bool := match q with None => true | Some _ => false end.
(* the body of a literal; [q] = Some quote for single- and double-quoted literals, None for triple-quoted ones *)
Fixpoint eval_body (isb : bool) (q : option N) (fuel : nat) (l : list N) : option (list N) :=
  match fuel with
  | O => None
  | S f =>
      match l with
      | [] => None                                                    (* unterminated *)
      | c :: r =>
          let closes :=
            match q with
            | Some qc => N.eqb c qc
            | None => N.eqb c SQ && match r with a :: b :: _ => N.eqb a SQ && N.eqb b SQ | _ => false end
            end in
          if closes then
            (match q, r with
             | Some _, [] => Some []
             | None, [_; _] => Some []
             | _, _ => None                                           (* something follows the literal *)
             end)
          else if N.eqb c BS then
            match r with
            | [] => None
            | e :: r2 =>
                if N.eqb e BS then option_map (cons BS) (eval_body isb q f r2)
                else if N.eqb e SQ then option_map (cons SQ) (eval_body isb q f r2)
                else if N.eqb e DQ then option_map (cons DQ) (eval_body isb q f r2)
                else if N.eqb e 110 then option_map (cons NL) (eval_body isb q f r2)
                else if N.eqb e 114 then option_map (cons CR) (eval_body isb q f r2)
                else if N.eqb e 116 then option_map (cons TAB) (eval_body isb q f r2)
                else if N.eqb e NL then eval_body isb q f r2         (* line continuation *)
                else
                  let n := (if N.eqb e 120 then 2
                            else if negb isb && N.eqb e 117 then 4
                            else if negb isb && N.eqb e 85 then 8 else 0)%nat in
                  match n with
                  | O => None                                         (* other escapes do not occur *)
                  | _ => if Nat.ltb (length r2) n then None
                         else match unhex 0 (firstn n r2) with
                              | Some v => option_map (cons v) (eval_body isb q f (skipn n r2))
                              | None => None
                              end
                  end
            end
          else if N.eqb c NL && negb (is_none_q q) then None          (* newline inside '...' *)
          else if isb && negb (N.ltb c 128) then None                 (* bytes literals are ASCII *)
          else option_map (cons c) (eval_body isb q f r)
      end
  end.

(* a whole literal: optional b prefix, then a triple-, single- or double-quoted literal *)
Definition eval_lit (l : list N) : option (bool * list N) :=
  let '(isb, l1) := match l with
                    | p :: r => if N.eqb p 98 then (true, r) else (false, l)
                    | [] => (false, l)
                    end in
  match l1 with
  | [] => None
  | a :: r =>
      if N.eqb a SQ && match r with b :: c :: _ => N.eqb b SQ && N.eqb c SQ | _ => false end
      then option_map (pair isb) (eval_body isb None (S (length r)) (skipn 2%nat r))
      else if N.eqb a SQ || N.eqb a DQ
           then option_map (pair isb) (eval_body isb (Some a) (S (length r)) r)
           else None
  end.
