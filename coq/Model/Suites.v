(* Model of testtools/testsuite.py: iterate_tests, filter_by_ids, _flatten_tests,
   sorted_tests (testsuite.py:23-31, 214-311) and run.py:list_test.
   Executable definitions only. *)
From TT Require Import Lib.Base Lib.Sort.

Definition id := nat.   (* the harness names tests so that string order = numeric order *)

(* A suite tree.  Case: anything that is not iterable and has id() (TestCase,
   PlaceHolder).  Plain: type(x) is unittest.TestSuite.  Custom: a TestSuite
   subclass; srt = it has a sort_tests() method (FixtureSuite's:
   self._tests = sorted_tests(self, True)); flt = it has its own conforming
   filter_by_ids() method. *)
Inductive node :=
| Case (i : id)
| Plain (l : list node)
| Custom (srt flt : bool) (l : list node).

(* iterate_tests, testsuite.py:23-31 *)
Fixpoint iterate (n : node) : list id :=
  match n with
  | Case i => [i]
  | Plain l | Custom _ _ l => flat_map iterate l
  end.

(* filter_by_ids, testsuite.py:240-297.  Mutation in place is modelled by
   returning the rebuilt tree; a case that fails the predicate is replaced by
   an empty plain TestSuite. *)
Fixpoint filter_ids (keep : id -> bool) (n : node) : node :=
  match n with
  | Case i => if keep i then n else Plain []
  | Plain l => Plain (map (filter_ids keep) l)
  | Custom s f l => Custom s f (map (filter_ids keep) l)
  end.

(* Every leaf with the path of child indices leading to it: order and grouping. *)
Definition go_paths (f : list nat -> node -> list (list nat * id)) (pre : list nat) :=
  fix go (k : nat) (l : list node) : list (list nat * id) :=
    match l with
    | [] => []
    | c :: r => f (k :: pre) c ++ go (S k) r
    end.
Fixpoint paths_from (pre : list nat) (n : node) : list (list nat * id) :=
  match n with
  | Case i => [(rev pre, i)]
  | Plain l | Custom _ _ l => go_paths paths_from pre 0 l
  end.
Definition paths (n : node) : list (list nat * id) := paths_from [] n.

(* ---- sorted_tests ---- *)
Inductive exn := ValueError | TypeError | OtherError.
Definition exn_eqb (a b : exn) : bool :=
  match a, b with
  | ValueError, ValueError | TypeError, TypeError | OtherError, OtherError => true
  | _, _ => false
  end.

Fixpoint mem (i : id) (l : list id) : bool :=
  match l with [] => false | x :: r => Nat.eqb i x || mem i r end.
Fixpoint has_dup (l : list id) : bool :=
  match l with [] => false | x :: r => mem x r || has_dup r end.

Definition key := option id.   (* None: a custom suite without any test *)
Definition key_leb (a b : key) : bool :=
  match a, b with
  | None, _ => true
  | Some _, None => false
  | Some x, Some y => Nat.leb x y
  end.
Definition item := (key * node)%type.
Definition item_leb (a b : item) : bool := key_leb (fst a) (fst b).
Definition sort_items (l : list item) : list item := isort item_leb l.

(* _flatten_tests(n) with unpack_outer=False, testsuite.py:214-237.  A custom
   suite is kept whole under the id of its first test *before* its own
   sort_tests() runs; sort_tests() replaces its members by the sorted ones. *)
Fixpoint flatten_top (n : node) : list item :=
  match n with
  | Case i => [(Some i, n)]
  | Plain l => flat_map flatten_top l
  | Custom s f l =>
      [(hd_error (flat_map iterate l),
        if s then Custom s f (map snd (sort_items (flat_map flatten_top l))) else n)]
  end.

(* _flatten_tests(n, unpack_outer) *)
Definition flatten (unpack_outer : bool) (n : node) : list item :=
  match n with
  | Custom _ _ l => if unpack_outer then flat_map flatten_top l else flatten_top n
  | _ => flatten_top n
  end.

Definition sorted_tests (unpack_outer : bool) (n : node) : res node exn :=
  if has_dup (iterate n) then Raised ValueError
  else Ok (Plain (map snd (sort_items (flatten unpack_outer n)))).

(* run.py:list_test (ids that do not look like import failures) *)
Definition list_test (n : node) : list id := iterate n.

(* ---- run.py:TestProgram --load-list, run.py:186-198 ----
   The list file is read in binary mode; a file is its bytes (binary numbers 0..255),
   a test id is the bytes of its UTF-8 encoding.

     lines = source.readlines()
     test_ids = {line.strip().decode("utf-8") for line in lines}
     self.test = filter_by_ids(self.test, test_ids)                      *)
Definition bytes := list N.
Definition LF : N := 10%N.

(* bytes.strip() without argument removes ASCII whitespace: \t \n \v \f \r and space *)
Definition is_ws (b : N) : bool :=
  (N.eqb b 9 || N.eqb b 10 || N.eqb b 11 || N.eqb b 12 || N.eqb b 13 || N.eqb b 32)%N.

(* a binary file's readlines(): pieces end after each \n (and only \n), which they keep;
   no piece for the empty rest after a final \n *)
Fixpoint readlines (f : bytes) : list bytes :=
  match f with
  | [] => []
  | b :: r => if N.eqb b LF then [b] :: readlines r
              else match readlines r with
                   | [] => [[b]]
                   | l :: ls => (b :: l) :: ls
                   end
  end.

Fixpoint lstrip (l : bytes) : bytes :=
  match l with
  | b :: r => if is_ws b then lstrip r else l
  | [] => []
  end.
Definition rstrip (l : bytes) : bytes := rev (lstrip (rev l)).
Definition strip (l : bytes) : bytes := rstrip (lstrip l).

(* the id set built from the file *)
Definition load_ids (f : bytes) : list bytes := map strip (readlines f).

Definition bytes_eqb : bytes -> bytes -> bool := list_eqb N.eqb.
Fixpoint memb (x : bytes) (l : list bytes) : bool :=
  match l with [] => false | y :: r => bytes_eqb x y || memb x r end.

(* test.id() of the case numbered i, from the table of names the tests were built with *)
Definition in_load_list (names : list bytes) (f : bytes) (i : id) : bool :=
  match nth_error names i with
  | Some nm => memb nm (load_ids f)
  | None => false
  end.

(* what `run --list` prints, what `run --load-list f` executes and what
   `run --list --load-list f` prints, as test numbers in order *)
Definition cli_list (n : node) : list id := list_test n.
Definition cli_load (names : list bytes) (f : bytes) (n : node) : node :=
  filter_ids (in_load_list names f) n.
Definition cli_run (n : node) : list id := iterate n.
