(* Model of the stream consumers of testtools/testresult/real.py:
     _TestRecord (create / set / got_timestamp / got_file / to_dict / to_test_case),
     _StreamToTestRecord (status / _update_case / _ensure_key / stopTestRun),
     StreamToDict, StreamSummary (_gather_test, the per-status handlers, wasSuccessful),
     StreamToExtendedDecorator (drops 'exists', replays each record through
     PlaceHolder.run, testcase.py, into the extended result).
   Executable definitions only.  Used by C10 and (as the receiving half) by C09.

   Test ids, file names, tags, route codes and timestamps are small numbers (the
   harness maps them); file_bytes are byte strings.  The representation of the
   mime_type argument (M) and of a parsed content type (CT) is a parameter:
   C10 uses codes for both, C09 uses strings and Mime.parse. *)
From Coq Require Import String.
From TT Require Import Lib.Base Lib.Bytestr Gen.Streamtabs.

(* ---------- status words, TestResult methods, StreamSummary lists ---------- *)
Inductive status := Inprogress | Exists | Xfail | Uxsuccess | Success | Fail | Skip | Unknown.

Definition status_name (s : status) : string :=
  match s with
  | Inprogress => "inprogress" | Exists => "exists" | Xfail => "xfail" | Uxsuccess => "uxsuccess"
  | Success => "success" | Fail => "fail" | Skip => "skip" | Unknown => "unknown"
  end.

Definition status_eqb (a b : status) : bool :=
  match a, b with
  | Inprogress, Inprogress | Exists, Exists | Xfail, Xfail | Uxsuccess, Uxsuccess
  | Success, Success | Fail, Fail | Skip, Skip | Unknown, Unknown => true
  | _, _ => false
  end.

Inductive outcome := AddSuccess | AddFailure | AddError | AddSkip | AddExpectedFailure | AddUnexpectedSuccess.

Definition outcome_eqb (a b : outcome) : bool :=
  match a, b with
  | AddSuccess, AddSuccess | AddFailure, AddFailure | AddError, AddError | AddSkip, AddSkip
  | AddExpectedFailure, AddExpectedFailure | AddUnexpectedSuccess, AddUnexpectedSuccess => true
  | _, _ => false
  end.

Definition outcome_name (o : outcome) : string :=
  match o with
  | AddSuccess => "addSuccess" | AddFailure => "addFailure" | AddError => "addError" | AddSkip => "addSkip"
  | AddExpectedFailure => "addExpectedFailure" | AddUnexpectedSuccess => "addUnexpectedSuccess"
  end.

Definition all_outcomes := [AddSuccess; AddFailure; AddError; AddSkip; AddExpectedFailure; AddUnexpectedSuccess].
Definition all_statuses := [Inprogress; Exists; Xfail; Uxsuccess; Success; Fail; Skip; Unknown].

Definition outcome_of_name (s : string) : option outcome :=
  find (fun o => String.eqb (outcome_name o) s) all_outcomes.
Definition status_of_name (s : string) : option status :=
  find (fun o => String.eqb (status_name o) s) all_statuses.

Inductive bucket := BFailures | BErrors | BSkipped | BExpectedFailures | BUnexpectedSuccesses.
Definition bucket_eqb (a b : bucket) : bool :=
  match a, b with
  | BFailures, BFailures | BErrors, BErrors | BSkipped, BSkipped
  | BExpectedFailures, BExpectedFailures | BUnexpectedSuccesses, BUnexpectedSuccesses => true
  | _, _ => false
  end.
Definition bucket_of_name (s : string) : option bucket :=
  if String.eqb s "failures" then Some BFailures
  else if String.eqb s "errors" then Some BErrors
  else if String.eqb s "skipped" then Some BSkipped
  else if String.eqb s "expectedFailures" then Some BExpectedFailures
  else if String.eqb s "unexpectedSuccesses" then Some BUnexpectedSuccesses
  else None.

Fixpoint slookup {V} (k : string) (l : list (string * V)) : option V :=
  match l with
  | [] => None
  | (k', v) :: r => if String.eqb k k' then Some v else slookup k r
  end.

(* `test_status not in INTERIM_STATES` (real.py, _StreamToTestRecord.status) - read off the live table *)
Definition final (st : option status) : bool :=
  negb (existsb (fun x => option_eqb String.eqb x (option_map status_name st)) interim_states).

(* `_status_map[self.status]` (to_test_case); None = KeyError *)
Definition outcome_of (st : status) : option outcome :=
  match slookup (status_name st) status_map with
  | Some n => outcome_of_name n
  | None => None
  end.

(* `self._handle_status[test_record.status]`: None = KeyError, Some None = handler appends nowhere *)
Definition bucket_of (st : status) : option (option bucket) :=
  match slookup (status_name st) summary_bucket with
  | Some (Some n) => match bucket_of_name n with Some b => Some (Some b) | None => None end
  | Some None => Some None
  | None => None
  end.

(* ---------- events and records ---------- *)
Definition key := (nat * option nat)%type.       (* (test_id, route_code) *)
Definition key_eqb (a b : key) : bool := Nat.eqb (fst a) (fst b) && option_eqb Nat.eqb (snd a) (snd b).

Section Rec.
  Variable M : Type.                  (* the mime_type argument *)
  Variable CT : Type.                 (* a ContentType *)
  Variable parse : option M -> CT.    (* _make_content_type *)

  (* one status() call; runnable is not represented (no consumer reads it) *)
  Record event := Ev {
    e_id : option nat; e_route : option nat; e_status : option status; e_tags : option (list nat);
    e_fname : option nat; e_fbytes : option string; e_eof : bool; e_mime : option M; e_ts : option nat }.

  (* _TestRecord; details: insertion-ordered dict  name -> (content type, bytes so far) *)
  Record rcd := Rcd {
    r_id : nat; r_tags : list nat; r_details : list (nat * (CT * string));
    r_status : status; r_first : option nat; r_last : option nat }.

  (* insertion-ordered dict keyed by (id, route) *)
  Fixpoint get {V} (k : key) (d : list (key * V)) : option V :=
    match d with [] => None | (k', v) :: r => if key_eqb k k' then Some v else get k r end.
  Fixpoint put {V} (k : key) (v : V) (d : list (key * V)) : list (key * V) :=
    match d with
    | [] => [(k, v)]
    | (k', v') :: r => if key_eqb k k' then (k', v) :: r else (k', v') :: put k v r
    end.
  Fixpoint del {V} (k : key) (d : list (key * V)) : list (key * V) :=
    match d with [] => [] | (k', v') :: r => if key_eqb k k' then r else (k', v') :: del k r end.

  (* _TestRecord.create *)
  Definition create (i : nat) (ts : option nat) : rcd :=
    {| r_id := i; r_tags := []; r_details := []; r_status := Unknown; r_first := ts; r_last := None |}.

  (* got_file: the mime type counts only the first time the name is seen *)
  Fixpoint add_bytes (name : nat) (m : option M) (b : string) (d : list (nat * (CT * string))) :=
    match d with
    | [] => [(name, (parse m, b))]
    | (n, (ct, old)) :: r =>
        if Nat.eqb name n then (n, (ct, old ++ b)%string) :: r else (n, (ct, old)) :: add_bytes name m b r
    end.

  (* _update_case *)
  Definition upd (r : rcd) (e : event) : rcd :=
    {| r_id := r_id r;
       r_tags := match e_tags e with Some t => t | None => r_tags r end;
       r_details := match e_fname e, e_fbytes e with
                    | Some n, Some b => if sempty b then r_details r else add_bytes n (e_mime e) b (r_details r)
                    | _, _ => r_details r
                    end;
       r_status := match e_status e with Some s => s | None => r_status r end;
       r_first := r_first r;
       r_last := e_ts e |}.

  (* stopTestRun: case.got_timestamp(None) *)
  Definition hung (r : rcd) : rcd :=
    {| r_id := r_id r; r_tags := r_tags r; r_details := r_details r; r_status := r_status r;
       r_first := r_first r; r_last := None |}.

  (* one status() call of _StreamToTestRecord: the new self._inprogress and the records handed to on_test *)
  Definition step (tbl : list (key * rcd)) (e : event) : list (key * rcd) * list rcd :=
    match e_id e with
    | None => (tbl, [])                                                      (* _ensure_key returns None *)
    | Some i =>
        let k := (i, e_route e) in
        let cur := match get k tbl with Some c => c | None => create i (e_ts e) end in
        let cur' := upd cur e in
        if final (e_status e) then (del k tbl, [cur']) else (put k cur' tbl, [])
    end.
  (* stopTestRun: popitem() until empty, last inserted first *)
  Definition flush (tbl : list (key * rcd)) : list rcd := map (fun kr => hung (snd kr)) (rev tbl).

  (* _StreamToTestRecord between startTestRun and (when [stop]) stopTestRun: the
     records handed to on_test, in call order.  tbl is self._inprogress. *)
  Fixpoint consume_from (stop : bool) (tbl : list (key * rcd)) (evs : list event) : list rcd :=
    match evs with
    | [] => if stop then flush tbl else []
    | e :: r => snd (step tbl e) ++ consume_from stop (fst (step tbl e)) r
    end.
  Definition consume (evs : list event) : list rcd := consume_from true [] evs.
  (* self._inprogress after the events, before stopTestRun *)
  Definition tbl_after (tbl : list (key * rcd)) (evs : list event) : list (key * rcd) :=
    fold_left (fun t e => fst (step t e)) evs tbl.

  (* ---------- StreamSummary ---------- *)
  Record summary := Summary {
    s_run : nat; s_failures : list nat; s_errors : list nat; s_skipped : list nat;
    s_xfail : list nat; s_uxsuccess : list nat;
    s_keyerror : bool      (* a status without handler was met (cannot happen with the current table) *) }.
  Definition summary0 := Summary 0 [] [] [] [] [] false.

  Definition push (b : bucket) (i : nat) (s : summary) : summary :=
    match b with
    | BFailures => Summary (s_run s) (s_failures s ++ [i]) (s_errors s) (s_skipped s) (s_xfail s) (s_uxsuccess s) (s_keyerror s)
    | BErrors => Summary (s_run s) (s_failures s) (s_errors s ++ [i]) (s_skipped s) (s_xfail s) (s_uxsuccess s) (s_keyerror s)
    | BSkipped => Summary (s_run s) (s_failures s) (s_errors s) (s_skipped s ++ [i]) (s_xfail s) (s_uxsuccess s) (s_keyerror s)
    | BExpectedFailures => Summary (s_run s) (s_failures s) (s_errors s) (s_skipped s) (s_xfail s ++ [i]) (s_uxsuccess s) (s_keyerror s)
    | BUnexpectedSuccesses => Summary (s_run s) (s_failures s) (s_errors s) (s_skipped s) (s_xfail s) (s_uxsuccess s ++ [i]) (s_keyerror s)
    end.

  (* _gather_test *)
  Definition gather (s : summary) (r : rcd) : summary :=
    if status_eqb (r_status r) Exists then s
    else
      let s1 := Summary (S (s_run s)) (s_failures s) (s_errors s) (s_skipped s) (s_xfail s) (s_uxsuccess s) (s_keyerror s) in
      match bucket_of (r_status r) with
      | Some (Some b) => push b (r_id r) s1
      | Some None => s1
      | None => Summary (s_run s1) (s_failures s1) (s_errors s1) (s_skipped s1) (s_xfail s1) (s_uxsuccess s1) true
      end.
  Definition summarize (evs : list event) : summary := fold_left gather (consume evs) summary0.
  (* wasSuccessful *)
  Definition was_successful (s : summary) : bool :=
    match s_failures s, s_errors s with [], [] => true | _, _ => false end.

  (* ---------- StreamToExtendedDecorator ---------- *)
  (* what the extended result at the end logs.  LOutcome carries the tags current
     on that result at the call and the details as (name, content type, joined bytes). *)
  Inductive logev :=
  | LStartRun | LStopRun
  | LTime (t : nat)
  | LTags (new gone : list nat)
  | LStartTest (i : nat)
  | LOutcome (o : outcome) (i : nat) (cur : list nat) (d : list (nat * (CT * string)))
  | LStopTest (i : nat)
  | LKeyError.                                     (* to_test_case on a status outside _status_map *)

  Definition opt_time (t : option nat) : list logev := match t with Some x => [LTime x] | None => [] end.

  (* to_test_case + PlaceHolder.run (testcase.py) into ExtendedToOriginalDecorator over an extended result *)
  Definition replay (r : rcd) : list logev :=
    match outcome_of (r_status r) with
    | None => [LKeyError]
    | Some o =>
        opt_time (r_first r) ++ [LTags (r_tags r) []; LStartTest (r_id r)] ++ opt_time (r_last r)
        ++ [LOutcome o (r_id r) (r_tags r) (r_details r); LStopTest (r_id r); LTags [] (r_tags r)]
    end.

  (* the log without the tags() calls (what the correspondence compares; the tags current at each
     outcome are part of LOutcome) *)
  Definition is_tags (l : logev) : bool := match l with LTags _ _ => true | _ => false end.
  Definition strip (log : list logev) : list logev := filter (fun l => negb (is_tags l)) log.

  Definition not_exists (e : event) : bool :=
    match e_status e with Some Exists => false | _ => true end.

  (* startTestRun; status()*; stopTestRun *)
  Definition s2e_log (evs : list event) : list logev :=
    [LStartRun] ++ flat_map replay (consume (filter not_exists evs)) ++ [LStopRun].
End Rec.

Arguments Ev {M}.
Arguments e_id {M}. Arguments e_route {M}. Arguments e_status {M}. Arguments e_tags {M}.
Arguments e_fname {M}. Arguments e_fbytes {M}. Arguments e_eof {M}. Arguments e_mime {M}. Arguments e_ts {M}.
Arguments Rcd {CT}.
Arguments r_id {CT}. Arguments r_tags {CT}. Arguments r_details {CT}. Arguments r_status {CT}.
Arguments r_first {CT}. Arguments r_last {CT}.
Arguments create {CT}. Arguments hung {CT}.
Arguments add_bytes {M CT}. Arguments upd {M CT}.
Arguments step {M CT}. Arguments flush {CT}.
Arguments consume_from {M CT}. Arguments consume {M CT}. Arguments tbl_after {M CT}.
Arguments gather {CT}. Arguments summarize {M CT}.
Arguments LStartRun {CT}. Arguments LStopRun {CT}. Arguments LTime {CT}. Arguments LTags {CT}.
Arguments LStartTest {CT}. Arguments LOutcome {CT}. Arguments LStopTest {CT}. Arguments LKeyError {CT}.
Arguments opt_time {CT}. Arguments replay {CT}. Arguments is_tags {CT}. Arguments strip {CT}. Arguments not_exists {M}. Arguments s2e_log {M CT}.
