(* Model of the tag machinery: testtools/tags.py (TagContext), the push / pop /
   reset discipline of TestResult, ExtendedToOriginalDecorator,
   ExtendedToStreamDecorator and doubles.ExtendedTestResult
   (testresult/real.py:196-245, 1589-1623, 1664-1673, 1754-1772; doubles.py),
   ThreadsafeForwardingResult's tag buffers and _merge_tags (real.py:1296-1421),
   MultiTestResult, TestResultDecorator, Tagger (real.py:2039-2054), and the
   ExtendedToStreamDecorator -> StreamToExtendedDecorator -> PlaceHolder.run path
   (real.py:1723-1728, 894-895, 1883-1885; testcase.py:855-866) as far as tags go.
   Executable definitions only. *)
From TT Require Import Lib.Base.

(* ---------- tag sets: lists compared extensionally ---------- *)
Definition tag := nat.
Definition tset := list tag.
Definition smem (x : tag) (s : tset) : bool := existsb (Nat.eqb x) s.
Definition sunion (a b : tset) : tset := a ++ b.
Definition sdiff (a b : tset) : tset := filter (fun x => negb (smem x b)) a.
Definition seteq (a b : tset) : Prop := forall x, smem x a = smem x b.

(* a tags(new_tags, gone_tags) call *)
Definition change := (tset * tset)%type.

(* TagContext.change_tags: _tags.update(new); _tags.difference_update(gone) *)
Definition apply1 (cur : tset) (ch : change) : tset := sdiff (sunion cur (fst ch)) (snd ch).

(* ---------- tags.py: a TagContext with the chain of its parents ----------
   [top] is the context's own _tags; [parents] are the _tags of parent,
   parent.parent, ...  A parent is never changed while a child is current. *)
Record tagctx := { top : tset; parents : list tset }.
Definition ctx_root : tagctx := {| top := []; parents := [] |}.                      (* TagContext() *)
Definition ctx_push (c : tagctx) : tagctx := {| top := top c; parents := top c :: parents c |}.   (* TagContext(c) *)
(* stopTest: if self._tags.parent is not None: self._tags = self._tags.parent *)
Definition ctx_pop (c : tagctx) : tagctx :=
  match parents c with [] => c | p :: r => {| top := p; parents := r |} end.
Definition ctx_change (c : tagctx) (ch : change) : tagctx := {| top := apply1 (top c) ch; parents := parents c |}.
Definition ctx_current (c : tagctx) : tset := top c.                                   (* get_current_tags *)

(* ---------- the calls that matter for tags ---------- *)
Inductive call := StartRun | Tags (ch : change) | StartTest | Outcome | StopTest.

(* TestResult / ExtendedToOriginalDecorator (own context) / ExtendedToStreamDecorator /
   doubles.ExtendedTestResult / the TestResult part of MultiTestResult and
   ThreadsafeForwardingResult: the same five lines in each class *)
Definition istep (c : tagctx) (op : call) : tagctx :=
  match op with
  | StartRun => ctx_root
  | Tags ch => ctx_change c ch
  | StartTest => ctx_push c
  | StopTest => ctx_pop c
  | Outcome => c
  end.

(* current_tags a result with its own TagContext shows at each outcome it receives *)
Fixpoint seen_from (c : tagctx) (h : list call) : list tset :=
  match h with
  | [] => []
  | op :: r => let c' := istep c op in
               match op with Outcome => ctx_current c' :: seen_from c' r | _ => seen_from c' r end
  end.

(* ---------- adapters as transducers of call streams ---------- *)
Fixpoint trans {S : Type} (f : S -> call -> S * list call) (s : S) (h : list call) : list call :=
  match h with
  | [] => []
  | op :: r => let (s', out) := f s op in out ++ trans f s' r
  end.

(* _merge_tags, real.py:1413-1421 *)
Definition merge_tags (ex ch : change) : change :=
  (sdiff (sunion (fst ex) (fst ch)) (snd ch), sdiff (sunion (snd ex) (snd ch)) (fst ch)).
(* _any_tags *)
Definition any_tags (c : change) : bool := match c with ([], []) => false | _ => true end.
Definition no_change : change := ([], []).

(* ThreadsafeForwardingResult: _global_tags, _test_tags, _in_test *)
Record tfr := { t_glob : change; t_test : change; t_in : bool }.
Definition tfr0 : tfr := {| t_glob := no_change; t_test := no_change; t_in := false |}.
Definition tfr_step (s : tfr) (op : call) : tfr * list call :=
  match op with
  | StartRun => ({| t_glob := no_change; t_test := no_change; t_in := t_in s |}, [StartRun])
  | Tags ch => (if t_in s then {| t_glob := t_glob s; t_test := merge_tags (t_test s) ch; t_in := true |}
                else {| t_glob := merge_tags (t_glob s) ch; t_test := t_test s; t_in := false |}, [])
  | StartTest => ({| t_glob := t_glob s; t_test := t_test s; t_in := true |}, [])
  | StopTest => ({| t_glob := t_glob s; t_test := no_change; t_in := false |}, [])
  | Outcome =>   (* _add_result_with_semaphore *)
      ({| t_glob := t_glob s; t_test := no_change; t_in := t_in s |},
       [StartTest] ++ (if any_tags (t_glob s) then [Tags (t_glob s)] else [])
                   ++ (if any_tags (t_test s) then [Tags (t_test s)] else [])
                   ++ [Outcome; StopTest])
  end.

(* ExtendedToStreamDecorator feeding StreamToExtendedDecorator: the final status
   carries test_tags=current_tags; _StreamToTestRecord keeps them; PlaceHolder.run
   replays  tags(t, {}) startTest outcome stopTest tags({}, t)  on the target.
   State: _tags (the root TagContext exists from __init__) and _started.  startTest and
   every outcome call _ensure_started first: when the run was not started, startTestRun
   goes to the targets (StreamToExtendedDecorator passes it on) and the decorator's own
   _tags are KEPT (real.py:1761-1768); an explicit startTestRun resets them.  tags(),
   current_tags and stopTest neither need nor start the run. *)
Record e2s := { e_ctx : tagctx; e_started : bool }.
Definition e2s0 : e2s := {| e_ctx := ctx_root; e_started := false |}.
Definition ensure_started (s : e2s) : list call := if e_started s then [] else [StartRun].
Definition e2s_step (s : e2s) (op : call) : e2s * list call :=
  let c := e_ctx s in
  match op with
  | StartRun => ({| e_ctx := ctx_root; e_started := true |}, [StartRun])
  | Tags ch => ({| e_ctx := ctx_change c ch; e_started := e_started s |}, [])
  | StartTest => ({| e_ctx := ctx_push c; e_started := true |}, ensure_started s)
  | Outcome => let t := ctx_current c in
               ({| e_ctx := c; e_started := true |},
                ensure_started s ++ [Tags (t, []); StartTest; Outcome; StopTest; Tags ([], t)])
  | StopTest => ({| e_ctx := ctx_pop c; e_started := e_started s |}, [])
  end.

(* Tagger.startTest: decorated.startTest(test); self.tags(new, gone) *)
Definition tagger_step (ch : change) (_ : unit) (op : call) : unit * list call :=
  (tt, match op with StartTest => [StartTest; Tags ch] | _ => [op] end).
Definition tagger_tr (ch : change) (h : list call) : list call := trans (tagger_step ch) tt h.

(* ---------- adapter stacks ----------
   Leaf false: doubles.ExtendedTestResult.  Leaf true: ExtendedToOriginalDecorator over
   a Python27TestResult (no tags/current_tags of its own: the decorator's TagContext is used).
   Multi: MultiTestResult over the members l (each member behind an ExtendedToOriginalDecorator).
   Deco: TestResultDecorator.  E2O: ExtendedToOriginalDecorator.  TFR: ThreadsafeForwardingResult.
   E2S a: ExtendedToStreamDecorator(CopyStreamResult([stream double, StreamToExtendedDecorator(a)])). *)
Inductive adapter :=
| Leaf (old : bool)
| Multi (l : list adapter)
| Deco (a : adapter)
| Tagger (ch : change) (a : adapter)
| E2O (a : adapter)
| TFR (a : adapter)
| E2S (a : adapter).

(* For every wrapped result (and every stream double), in depth-first order: the tags it
   observes at each outcome it receives (a stream double: test_tags of each final status). *)
Fixpoint leaves_obs (a : adapter) (h : list call) : list (list tset) :=
  match a with
  | Leaf _ => [seen_from ctx_root h]
  | Multi l => flat_map (fun x => leaves_obs x h) l
  | Deco x | E2O x => leaves_obs x h
  | Tagger ch x => leaves_obs x (tagger_tr ch h)
  | TFR x => leaves_obs x (trans tfr_step tfr0 h)
  | E2S x => seen_from ctx_root h :: leaves_obs x (trans e2s_step e2s0 h)
  end.

(* current_tags of the outermost object after the calls h *)
Fixpoint reporter_tags (a : adapter) (h : list call) : tset :=
  match a with
  | Leaf _ | Multi _ | TFR _ | E2S _ => ctx_current (fold_left istep h ctx_root)
  | Deco x | E2O x => reporter_tags x h                 (* current_tags delegates to decorated *)
  | Tagger ch x => reporter_tags x (tagger_tr ch h)
  end.

(* ... after each call of h *)
Definition reporter_scan (a : adapter) (h : list call) : list tset :=
  map (fun k => reporter_tags a (firstn k h)) (seq 1 (length h)).
