(* ThreadsafeForwardingResult under interleaving (testtools/testresult/real.py, class
   ThreadsafeForwardingResult; DESIGN Appendix A.4).  Executable definitions only.

   A configuration holds the shared semaphore (free | held by t), the ghost log of
   everything that happened on the two shared objects (semaphore acquire / release and
   every call on the shared target, each tagged with the calling thread and - for a
   target call - with whether the target raised), and per thread a forwarder state, the
   script of calls the thread still has to make on its forwarder, a program counter and
   its own fault plan (which of ITS target calls raise).

   One model step of thread t = the pending operation of t on a shared object, followed
   by all of t's thread-local work up to its next operation on a shared object.  That is
   the granularity at which the harness scheduler (harness/vcheck/sched.py) interleaves
   the real threads.

   The program counter is a tree rather than A.4's [list micro]: [PCall c h r] carries the
   continuation [h] taken when the target raises (the `finally` edges) and the normal
   continuation [r]; [PEnd] = the forwarder call returned, [PRaise] = it raised. *)
From TT Require Import Lib.Base.

Definition tid := nat.

(* ---------- tag sets: strictly increasing lists of tag numbers ---------- *)
Fixpoint ins (x : nat) (l : list nat) : list nat :=
  match l with
  | [] => [x]
  | y :: r => if x <? y then x :: l else if x =? y then l else y :: ins x r
  end.
Definition union (a b : list nat) : list nat := fold_right ins b a.
Definition memb (x : nat) (l : list nat) : bool := existsb (Nat.eqb x) l.
Definition diff (a b : list nat) : list nat := filter (fun x => negb (memb x b)) a.

Definition tags2 := (list nat * list nat)%type.        (* (new_tags, gone_tags) *)
Definition no_tags : tags2 := ([], []).
(* real.py _merge_tags *)
Definition merge_tags (e c : tags2) : tags2 :=
  (diff (union (fst c) (fst e)) (snd c), diff (union (snd c) (snd e)) (fst c)).
(* _any_tags *)
Definition any_tags (g : tags2) : bool :=
  match g with ([], []) => false | _ => true end.

(* ---------- what is said to the forwarder, what the forwarder says to the target ---------- *)
Inductive tv := TvNone | TvWall | TvAt (n : nat).     (* None | datetime.now() | a supplied datetime *)
Inductive kind := KSuccess | KError | KFailure | KSkip | KXfail | KUxsuccess.
Inductive guard := GStartRun | GStopRun | GStop | GDone | GShouldStop.

(* calls of a thread on its own forwarder *)
Inductive rcall :=
| RTime (a : option nat)                (* time(datetime | None) *)
| RTags (n g : list nat)                (* tags(new, gone) *)
| RStartTest (n : nat)
| RStopTest (n : nat)
| ROutcome (k : kind) (n : nat)         (* addSuccess/addError/... (test n) *)
| RGuard (g : guard)                    (* startTestRun / stopTestRun / stop / done / reading shouldStop *)
| RRaise.                               (* the caller's own code raises here (Concur.v: a broken runner) *)

(* calls on the shared target *)
Inductive tcall :=
| TTime (v : tv) | TStartTest (n : nat) | TTags (g : tags2)
| TOutcome (k : kind) (n : nat) | TStopTest (n : nat) | TGuard (g : guard).

(* events on the shared objects *)
Inductive gev := EAcq | ERel | ECall (c : tcall) (raised : bool).

(* ---------- forwarder state (thread-confined) ---------- *)
Record fwd := { f_now : option nat;      (* TestResult.__now *)
                f_start : tv;            (* _test_start *)
                f_global : tags2;        (* _global_tags *)
                f_test : tags2;          (* _test_tags *)
                f_in : bool }.           (* _in_test *)
Definition fwd0 : fwd :=
  {| f_now := None; f_start := TvNone; f_global := no_tags; f_test := no_tags; f_in := false |}.
Definition now_tv (f : fwd) : tv := match f_now f with Some n => TvAt n | None => TvWall end.   (* _now() *)

(* thread-local effects *)
Inductive lop :=
| LSetNow (a : option nat) | LTags (n g : list nat) | LStartTest | LStopTest
| LClearTestTags | LClearStart | LStartRun.

Definition apply_lop (o : lop) (f : fwd) : fwd :=
  match o with
  | LSetNow a => {| f_now := a; f_start := f_start f; f_global := f_global f; f_test := f_test f; f_in := f_in f |}
  | LTags n g =>
      if f_in f
      then {| f_now := f_now f; f_start := f_start f; f_global := f_global f;
              f_test := merge_tags (f_test f) (n, g); f_in := f_in f |}
      else {| f_now := f_now f; f_start := f_start f; f_global := merge_tags (f_global f) (n, g);
              f_test := f_test f; f_in := f_in f |}
  | LStartTest => {| f_now := f_now f; f_start := now_tv f; f_global := f_global f; f_test := f_test f; f_in := true |}
  | LStopTest => {| f_now := f_now f; f_start := f_start f; f_global := f_global f; f_test := no_tags; f_in := false |}
  | LClearTestTags => {| f_now := f_now f; f_start := f_start f; f_global := f_global f; f_test := no_tags; f_in := f_in f |}
  | LClearStart => {| f_now := f_now f; f_start := TvNone; f_global := f_global f; f_test := f_test f; f_in := f_in f |}
  | LStartRun => {| f_now := None; f_start := f_start f; f_global := no_tags; f_test := no_tags; f_in := f_in f |}
  end.

(* ---------- program counter ---------- *)
Inductive prog :=
| PEnd                                          (* the forwarder call returned *)
| PRaise                                        (* the forwarder call raised *)
| PAcq (r : prog)                               (* semaphore.acquire() *)
| PRel (r : prog)                               (* semaphore.release() *)
| PCall (c : tcall) (on_raise : prog) (r : prog)  (* a call on the target *)
| PLoc (o : lop) (r : prog).                    (* thread-local work *)

Fixpoint calls_then (cs : list tcall) (h r : prog) : prog :=
  match cs with [] => r | c :: cs' => PCall c h (calls_then cs' h r) end.

(* acquire; try: call finally: release *)
Definition guarded (c : tcall) : prog := PAcq (PCall c (PRel PRaise) (PRel PEnd)).

(* the prefix replayed by _add_result_with_semaphore before the outcome *)
Definition replay (f : fwd) (n : nat) : list tcall :=
  [TTime (f_start f); TStartTest n; TTime (now_tv f)]
  ++ (if any_tags (f_global f) then [TTags (f_global f)] else [])
  ++ (if any_tags (f_test f) then [TTags (f_test f)] else []).

(* real.py:1296-1314, 1347-1410: what one call on the forwarder does, given the forwarder's state
   when the call starts.  All reads of forwarder state inside _add_result_with_semaphore see this
   state because the forwarder is confined to its thread. *)
Definition expand (f : fwd) (c : rcall) : prog :=
  match c with
  | RTime a => PLoc (LSetNow a) PEnd
  | RTags n g => PLoc (LTags n g) PEnd
  | RStartTest _ => PLoc LStartTest PEnd
  | RStopTest _ => PLoc LStopTest PEnd
  | RGuard GStartRun => PLoc LStartRun (guarded (TGuard GStartRun))
  | RGuard g => guarded (TGuard g)
  | RRaise => PRaise
  | ROutcome k n =>
      PAcq (calls_then (replay f n) (PRel PRaise)
             (PLoc LClearTestTags
               (PCall (TOutcome k n)
                  (PCall (TStopTest n) (PRel PRaise) (PRel PRaise))      (* inner finally, then outer finally *)
                  (PCall (TStopTest n) (PRel PRaise)
                     (PRel (PLoc LClearStart PEnd))))))
  end.

(* ---------- threads ---------- *)
(* [fb]: what the thread's own code does when a forwarder call raises.
     None          - it catches the exception and goes on with its script (the C12 harness);
     Some (s :: r) - the rest of the script is abandoned and s is run instead (Concur.v: the
                     `except Exception` of _run_test runs the broken-runner ErrorHolder);
     Some []       - the thread ends. *)
Record thread := { pc : prog; script : list rcall; fw : fwd; ncall : nat; flt : list nat;
                   fb : option (list (list rcall)) }.

Fixpoint settle (p : prog) (f : fwd) : prog * fwd :=
  match p with PLoc o r => settle r (apply_lop o f) | _ => (p, f) end.

(* next call of the script that touches a shared object (or, unless [cont], that raises) *)
Fixpoint load (cont : bool) (s : list rcall) (f : fwd) : prog * list rcall * fwd :=
  match s with
  | [] => (PEnd, [], f)
  | c :: r => match settle (expand f c) f with
              | (PEnd, f') => load cont r f'
              | (PRaise, f') => if cont then load cont r f' else (PRaise, r, f')
              | (p, f') => (p, r, f')
              end
  end.

Fixpoint resume (fbs : list (list rcall)) (f : fwd) : prog * list rcall * fwd * list (list rcall) :=
  match fbs with
  | [] => (PEnd, [], f, [])
  | s :: r => match load false s f with
              | (PRaise, _, f') => resume r f'
              | (p, s', f') => (p, s', f', r)
              end
  end.

Definition mk_thread (th : thread) (p : prog) (s : list rcall) (f : fwd) (b : option (list (list rcall))) : thread :=
  {| pc := p; script := s; fw := f; ncall := ncall th; flt := flt th; fb := b |}.

(* run the thread-local work up to the next operation on a shared object *)
Definition norm (th : thread) : thread :=
  let '(p, f) := settle (pc th) (fw th) in
  match p, fb th with
  | PEnd, None | PRaise, None =>
      let '(p', s', f') := load true (script th) f in mk_thread th p' s' f' None
  | PEnd, Some fbs =>
      match load false (script th) f with
      | (PRaise, _, f') => let '(p', s', f'', fbs') := resume fbs f' in mk_thread th p' s' f'' (Some fbs')
      | (p', s', f') => mk_thread th p' s' f' (Some fbs)
      end
  | PRaise, Some fbs =>
      let '(p', s', f', fbs') := resume fbs f in mk_thread th p' s' f' (Some fbs')
  | _, b => mk_thread th p (script th) f b
  end.

Definition faulty (th : thread) : bool := memb (ncall th) (flt th).

Definition set_pc (th : thread) (p : prog) (calls : nat) : thread :=
  {| pc := p; script := script th; fw := fw th; ncall := calls; flt := flt th; fb := fb th |}.

(* the pending shared operation of a (normalised) thread, and the thread after it *)
Definition tstep (th : thread) : option (gev * thread) :=
  match pc th with
  | PAcq r => Some (EAcq, norm (set_pc th r (ncall th)))
  | PRel r => Some (ERel, norm (set_pc th r (ncall th)))
  | PCall c h r =>
      let b := faulty th in
      Some (ECall c b, norm (set_pc th (if b then h else r) (S (ncall th))))
  | _ => None
  end.

Definition init_thread (s : list rcall) (faults : list nat) (b : option (list (list rcall))) : thread :=
  norm {| pc := PEnd; script := s; fw := fwd0; ncall := 0; flt := faults; fb := b |}.

Definition finished (th : thread) : bool := match pc th with PEnd => true | _ => false end.
(* the thread's next operation on a shared object is a call on the target or the release *)
Definition in_block (th : thread) : bool := match pc th with PRel _ | PCall _ _ _ => true | _ => false end.

(* ---------- configurations ---------- *)
Record config := { sem : option tid; glog : list (tid * gev); ths : list thread }.

Fixpoint upd {A} (l : list A) (i : nat) (x : A) : list A :=
  match l, i with
  | [], _ => []
  | _ :: r, 0 => x :: r
  | y :: r, S j => y :: upd r j x
  end.

(* is the operation possible now, and what is the semaphore afterwards.  A release or a target
   call by a thread that does not hold the semaphore has no transition: the theorems show that no
   thread ever gets there (it would show up as a deadlock). *)
Definition enabled (s : option tid) (t : tid) (e : gev) : option (option tid) :=
  match e, s with
  | EAcq, None => Some (Some t)
  | EAcq, Some _ => None
  | ERel, Some u => if u =? t then Some None else None
  | ECall _ _, Some u => if u =? t then Some s else None
  | _, None => None
  end.

Definition step (c : config) (t : tid) : option config :=      (* None: blocked or finished *)
  match nth_error (ths c) t with
  | None => None
  | Some th =>
      match tstep th with
      | None => None
      | Some (e, th') =>
          match enabled (sem c) t e with
          | None => None
          | Some s' => Some {| sem := s'; glog := glog c ++ [(t, e)]; ths := upd (ths c) t th' |}
          end
      end
  end.

Definition step' (c : config) (t : tid) : config := match step c t with Some c' => c' | None => c end.

Definition init (l : list (list rcall * list nat)) : config :=
  {| sem := None; glog := []; ths := map (fun sf => init_thread (fst sf) (snd sf) None) l |}.

(* ---------- the harness scheduler: a schedule entry names a thread; when that thread is blocked
   or finished the next runnable one (cyclically) runs instead; when the schedule is used up the
   lowest-numbered runnable thread runs, until none is runnable ---------- *)
Fixpoint pick_from (c : config) (cands : list tid) : option config :=
  match cands with
  | [] => None
  | t :: r => match step c t with Some c' => Some c' | None => pick_from c r end
  end.

Definition rot (n t : nat) : list tid := map (fun j => (t + j) mod n) (seq 0 n).

Definition sched_step (c : config) (t : tid) : config :=
  match pick_from c (rot (length (ths c)) t) with Some c' => c' | None => c end.

Fixpoint drain (fuel : nat) (c : config) : config :=
  match fuel with
  | 0 => c
  | S k => match pick_from c (seq 0 (length (ths c))) with Some c' => drain k c' | None => c end
  end.

(* an upper bound on the number of shared operations still to come *)
Fixpoint psize (p : prog) : nat :=
  match p with
  | PEnd | PRaise => 0
  | PAcq r | PRel r => S (psize r)
  | PCall _ h r => S (Nat.max (psize h) (psize r))
  | PLoc _ r => psize r
  end.
Definition call_bound := 10.
Definition tmeasure (th : thread) : nat :=
  psize (pc th) + call_bound * length (script th)
  + match fb th with None => 0 | Some fbs => call_bound * length (concat fbs) end.
Definition cmeasure (c : config) : nat := fold_right (fun th a => tmeasure th + a) 0 (ths c).

Definition run (l : list (list rcall * list nat)) (sched : list tid) : config :=
  let c := fold_left sched_step sched (init l) in
  drain (cmeasure c) c.

Definition all_finished (c : config) : bool := forallb finished (ths c).
