#!/venv/bin/python
"""Run the pinned suite on a tree (default /repo) and compare with BASELINE.json's stable_pass.
usage: tools/baseline.py [repo_dir]   -> exit 0 iff every stable_pass test passes"""
import json, os, subprocess, sys, tempfile
import xml.etree.ElementTree as ET
repo = sys.argv[1] if len(sys.argv) > 1 else "/repo"
base = json.load(open("/root/.vp/BASELINE.json"))
fd, xml = tempfile.mkstemp(suffix=".xml"); os.close(fd)
env = dict(os.environ, PYTHONPATH=repo, PYTHONDONTWRITEBYTECODE="1")
env.pop("TESTTOOLS_VERIF", None)
subprocess.run(["/venv/bin/python", "-m", "pytest", "-ra", "-q", "-p", "no:cacheprovider", "--timeout=900",
                "--continue-on-collection-errors", "--junitxml=" + xml], cwd=repo, env=env,
               capture_output=True, text=True)
passed = set()
for tc in ET.parse(xml).getroot().iter("testcase"):
    if not any(c.tag in ("failure", "error", "skipped") for c in tc):
        passed.add("%s::%s" % (tc.get("classname"), tc.get("name")))
os.unlink(xml)
want = set(base["stable_pass"])
missing = sorted(want - passed)
print("stable_pass: %d, passing now: %d, missing: %d" % (len(want), len(passed & want), len(missing)))
for m in missing[:20]:
    print("  MISSING", m)
sys.exit(1 if missing else 0)
