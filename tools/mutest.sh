#!/bin/bash
# tools/mutest.sh <patch.diff> <prop> [tier]      run a check against a scratch worktree of /repo with the patch applied
# tools/mutest.sh --revert <commit> <prop> [tier]  ... with the given /repo commit reverted (e.g. a fix: commit)
set -e
rev=""
if [ "$1" = "--revert" ]; then rev="$2"; shift 2; else patch="$(realpath "$1")"; shift; fi
prop="$1"; tier="${2:-quick}"
d="/tmp/mut-$$"
git -C /repo worktree add -q --detach "$d" HEAD
trap 'git -C /repo worktree remove --force "$d"' EXIT
if [ -n "$rev" ]; then git -C /repo show "$rev" | git -C "$d" apply -R; else git -C "$d" apply "$patch"; fi
cd /verif
set +e
VERIF_REPO="$d" ./check "$prop" --tier "$tier"
echo "exit=$?"
