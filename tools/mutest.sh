#!/bin/bash
# tools/mutest.sh <patch.diff> <prop> [tier]  - run a check against a scratch worktree of /repo with the patch applied
set -e
patch="$(realpath "$1")"; prop="$2"; tier="${3:-quick}"
d="/tmp/mut-$$"
git -C /repo worktree add -q --detach "$d" HEAD
trap 'git -C /repo worktree remove --force "$d"' EXIT
git -C "$d" apply "$patch"
cd /verif
set +e
VERIF_REPO="$d" ./check "$prop" --tier "$tier"
echo "exit=$?"
