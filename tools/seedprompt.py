#!/usr/bin/env python3
"""tools/seedprompt.py <prop>   creates a scratch worktree /tmp/seedw/<prop> of /repo HEAD and an output dir /tmp/seedw/<prop>-out,
and prints the prompt for an independent sub-agent (property text only; nothing from /verif's machinery)."""
import json, os, subprocess, sys
ROOT = os.path.dirname(os.path.dirname(os.path.abspath(__file__)))
pid = sys.argv[1]
prop = [json.loads(l) for l in open(os.path.join(ROOT, "properties.jsonl")) if json.loads(l)["id"] == pid][0]
wt = "/tmp/seedw/%s" % pid
out = wt + "-out"
os.makedirs("/tmp/seedw", exist_ok=True)
if not os.path.exists(wt):
    subprocess.run(["git", "-C", "/repo", "worktree", "add", "-q", "--detach", wt, "HEAD"], check=True)
os.makedirs(out, exist_ok=True)
prev = []
for s in sorted(os.listdir(os.path.join(ROOT, "seeded"))):
    if s.startswith(pid + "-"):
        m = json.load(open(os.path.join(ROOT, "seeded", s, "meta.json")))
        prev.append("- " + m.get("summary", "")[:400])
text = json.dumps({k: prop[k] for k in ("id", "title", "statement", "quantifier", "why_tests_cant", "anchors")}, indent=1)
print(f"""You are helping to evaluate a verification effort for the Python library testtools (extensions to unittest). You work ONLY inside your own scratch git worktree of the library at {wt} (a checkout of the current source; the package is the directory {wt}/testtools) and write your deliverables to {out}/ . Do not read or write anything under /verif or /repo, and do not look for other people's work elsewhere on the machine.

Below is a semantic property that the library is supposed to satisfy. Your task: produce TWO independent, realistic code changes to the library (k = 1 and k = 2), each of which BREAKS this property while
  * the package still imports and the existing test suite still gives exactly the same results as before the change (run it before and after: `cd {wt} && PYTHONPATH={wt} /venv/bin/python -m pytest -q -p no:cacheprovider --timeout=900 --continue-on-collection-errors -x -q 2>&1 | tail -5` without -x for the full picture; on this machine the unchanged tree has 1327 passing and 38 failing tests (the failures are environmental and must stay the same set); compare the sets of passing tests, e.g. with `-rA` or `--junitxml`);
  * the change looks like something a maintainer could plausibly commit (a refactoring, an "optimisation", a simplification, a clean-up, a bug fix for something else) — not sabotage with an `if x == 'magic'`;
  * the breakage needs something SPECIFIC to manifest: a particular interleaving, a fault at a particular point, a multi-step sequence of operations, an unusual input, or two cooperating edits that each look fine alone. Changes that ordinary use would expose at once are not interesting.
The two changes should touch different mechanisms/files of the property's anchors where possible, and must differ from these changes that others already produced for this property:
{chr(10).join(prev) if prev else '- (none yet)'}

For each k write into {out}/ :
  change<k>.diff   `git diff` of the worktree for that change alone (applies with `git apply` to a clean checkout of the same commit; make change 1, save the diff, `git checkout -- .`, then make change 2),
  demo<k>.py       a stand-alone program (run as `PYTHONPATH=<tree> /venv/bin/python demo<k>.py`, exit status 0 = property holds on the scenarios it tries, non-zero = violated, printing what went wrong) that passes on the unchanged tree and fails on the changed tree; it must exercise the PUBLIC behaviour the property talks about, not poke at the edited lines,
  meta<k>.json     {{"summary": "what was changed and how it is disguised", "breaks": "which clause of the property fails and how", "needs_to_manifest": "the specific input/sequence/interleaving needed", "suite_result_with_change": "N passed, M failed"}}.
Never use `git stash` (the stash is shared with other people's worktrees of the same repository): to get back to a clean tree save your diff to a file, `git checkout -- .`, and re-apply it with `git apply`. Verify everything yourself (suite unchanged, demo passes without / fails with the change) before finishing, leave the worktree clean (`git -C {wt} checkout -- .`; no stray files), and answer with a short description of the two changes.

PROPERTY ({pid}):
{text}
""")
