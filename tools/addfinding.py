#!/usr/bin/env python3
"""tools/addfinding.py <entry.json>   add or replace (by id) one finding entry in known_findings.json under a lock.
entry: {"id": "F2", "num": 2, "property": "C03", "what": "...one line: what fails...", "predicate": "Spec.C03.finding_F2",
        "witness": <case JSON exactly as the property's generator would produce it>}"""
import fcntl, json, os, sys
ROOT = os.path.dirname(os.path.dirname(os.path.abspath(__file__)))
entry = json.load(open(sys.argv[1]))
for k in ("id", "num", "property", "what", "witness"):
    assert k in entry, "missing " + k
path = os.path.join(ROOT, "known_findings.json")
with open(path, "r+") as f:
    fcntl.flock(f, fcntl.LOCK_EX)
    data = json.load(f)
    data["findings"] = [e for e in data["findings"] if e["id"] != entry["id"]] + [entry]
    data["findings"].sort(key=lambda e: e["num"])
    f.seek(0); f.truncate()
    json.dump(data, f, indent=1)
    f.write("\n")
print("known_findings.json now lists:", [e["id"] for e in data["findings"]])
