#!/bin/bash
# tools/reverts.sh [pairs...]   for each "<commit>:<prop>" run the check against a scratch worktree with that fix: commit reverted;
# appends one line per pair to notes/revert-results.txt (development aid: shows the machinery sees each repaired defect)
cd /verif
for pair in "$@"; do
  h="${pair%%:*}"; p="${pair##*:}"
  out=$(timeout 2400 tools/mutest.sh --revert "$h" "$p" quick 2>&1 | grep -E "^(VIOLATION|OK|exit=)" | tr '\n' ' ' | cut -c1-300)
  echo "$(date -u +%FT%TZ) revert $h $p: $out" | tee -a notes/revert-results.txt
done
