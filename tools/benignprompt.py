#!/usr/bin/env python3
"""tools/benignprompt.py <prop>   creates a scratch worktree /tmp/benw/<prop> of /repo HEAD and an output dir /tmp/benw/<prop>-out,
and prints the prompt for an independent sub-agent asked for PROPERTY-PRESERVING changes (property text only)."""
import json, os, subprocess, sys
ROOT = os.path.dirname(os.path.dirname(os.path.abspath(__file__)))
pid = sys.argv[1]
prop = [json.loads(l) for l in open(os.path.join(ROOT, "properties.jsonl")) if json.loads(l)["id"] == pid][0]
wt = "/tmp/benw/%s" % pid
out = wt + "-out"
os.makedirs("/tmp/benw", exist_ok=True)
if not os.path.exists(wt):
    subprocess.run(["git", "-C", "/repo", "worktree", "add", "-q", "--detach", wt, "HEAD"], check=True)
os.makedirs(out, exist_ok=True)
prev = []
for d in sorted(os.listdir(os.path.join(ROOT, "benign"))) if os.path.isdir(os.path.join(ROOT, "benign")) else []:
    if d.startswith(pid + "-"):
        m = json.load(open(os.path.join(ROOT, "benign", d, "meta.json")))
        prev.append("- " + " ".join(m.get("summary", "").split())[:350])
prevtext = "\n".join(prev) if prev else "- (none yet)"
text = json.dumps({k: prop[k] for k in ("id", "title", "statement", "quantifier", "why_tests_cant", "anchors")}, indent=1)
print(f"""You are helping to evaluate a verification effort for the Python library testtools (extensions to unittest). You work ONLY inside your own scratch git worktree of the library at {wt} (a checkout of the current source; the package is the directory {wt}/testtools) and write your deliverables to {out}/ . Do not read or write anything under /verif or /repo, and do not look for other people's work elsewhere on the machine. Never use `git stash` (it is shared with other people's worktrees of the same repository): to get back to a clean tree save your diff to a file, `git checkout -- .`, re-apply with `git apply`.

Below is a semantic property that the library satisfies. Your task: produce THREE independent, realistic code changes to the mechanisms named in the property's anchors (k = 1, 2, 3) that a maintainer could plausibly commit and that PRESERVE the property - for EVERY input, history, schedule or configuration the property quantifies over, not just the common ones - while changing the code substantially enough that a verification tool which was over-fitted to the current implementation (its exact internal steps, data structures, wording of messages, order of events the property does not constrain, names of private attributes, which helper calls which) could be fooled into raising a false alarm. Good candidates: restructuring control flow (loops <-> comprehensions, early returns, try/finally <-> context managers, recursion <-> explicit stack), renaming/merging/splitting private helpers, changing internal representations (list <-> dict <-> set where order does not matter to the property), changing the wording of messages / reprs that the property does not pin down, reordering independent statements, caching that is correctly invalidated, defensive copies, stricter-but-equivalent argument handling, behaviour changes confined to inputs the property does not quantify over. The three changes must differ from each other and from these changes that others already produced for this property (go for other mechanisms, other styles of rewrite, and for behaviour changes confined to inputs OUTSIDE the property's quantifier):
{prevtext}
Each change must
  * keep the package importable and the existing test suite at exactly the same results (`cd {wt} && PYTHONPATH={wt} /venv/bin/python -m pytest -q -p no:cacheprovider --timeout=900 --continue-on-collection-errors 2>&1 | tail -5`; on this machine the unchanged tree has 1327 passing and 38 failing tests, the failures are environmental and must stay the same set);
  * really preserve the property: think adversarially about unusual inputs, fault paths, re-use of objects, multi-step histories and interleavings before you settle on it, and write down the argument.
For each k write into {out}/ :
  change<k>.diff   `git diff` of the worktree for that change alone (applies with `git apply` to a clean checkout of the same commit),
  demo<k>.py       a stand-alone program (`PYTHONPATH=<tree> /venv/bin/python demo<k>.py`, exit 0 = property holds on everything it tries) that exercises the PUBLIC behaviour the property talks about broadly (many generated inputs/histories incl. unusual ones) and passes on BOTH the unchanged and the changed tree,
  meta<k>.json     {{"summary": "what was changed", "why_property_preserved": "the argument, clause by clause", "what_observably_changes": "anything a user could observe that differs (message text, timing, internal attributes ...) or 'nothing'", "suite_result_with_change": "N passed, M failed"}}.
Verify everything yourself, leave the worktree clean (`git -C {wt} checkout -- .`; no stray files), and answer with a short description of the three changes.

PROPERTY ({pid}):
{text}
""")
