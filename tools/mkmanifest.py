#!/usr/bin/env python3
"""Writes MANIFEST.json from the table below (kept in one place so that it stays valid)."""
import json, os
ROOT = os.path.dirname(os.path.dirname(os.path.abspath(__file__)))
GUARD = "TESTTOOLS_VERIF"
BASE = "cd /repo && /venv/bin/python -m pytest -ra -q -p no:cacheprovider --timeout=900 --continue-on-collection-errors"
import ast, glob
def load_claims():
    """Each harness/vcheck/props/cNN.py carries MANIFEST = {text, note, technique, ref} (a literal dict)."""
    out = {}
    for path in sorted(glob.glob(os.path.join(ROOT, "harness/vcheck/props/c[0-9]*.py"))):
        tree = ast.parse(open(path).read())
        info = {}
        for node in tree.body:
            if isinstance(node, ast.Assign) and len(node.targets) == 1 and isinstance(node.targets[0], ast.Name):
                if node.targets[0].id in ("MANIFEST", "PROP"):
                    info[node.targets[0].id] = ast.literal_eval(node.value)
        if "MANIFEST" in info and "PROP" in info:
            out[info["PROP"]] = info["MANIFEST"]
    return out
# properties whose check has been integrated and verified by the coordinator (exit 0 on the unchanged tree, several seeds)
ENABLED = ["C%02d" % k for k in range(1, 21)]
CLAIMED = {k: v for k, v in load_claims().items() if k in ENABLED}
NOT_APPLICABLE = {}
def main():
    props = [json.loads(l)["id"] for l in open(os.path.join(ROOT, "properties.jsonl"))]
    checks = []
    for pid in props:
        if pid not in CLAIMED:
            continue
        c = CLAIMED[pid]
        checks.append({
            "property_id": pid,
            "quick_cmd": "./check %s --tier quick" % pid,
            "thorough_cmd": "./check %s --tier thorough" % pid,
            "evidence_file": "/verif/evidence/%s.json" % pid,
            "replay_cmd_template": "./check %s --replay {path}" % pid,
            "engine": "coq-proof+correspondence",
            "level_claimed": {"category": "proof", "text": c["text"], "design_ref": "DESIGN.md section " + c["ref"]},
            "level_note": c["note"],
            "technique": c["technique"],
        })
    na = [{"property_id": p, "reason": NOT_APPLICABLE.get(p, "check not built yet in this development (planned; see DESIGN.md section 6)")}
          for p in props if p not in CLAIMED]
    src = []
    m = {
        "version": 1,
        "setup_cmd": "./check --setup",
        "hooks": {"guard": GUARD, "enable": "no hooks exist: the checks drive public constructors and rebind names in "
                  "testtools.testsuite from the harness; ./check exports %s=1 for uniformity" % GUARD,
                  "baseline_off_cmd": BASE, "source_commits": src, "add_only": True},
        "engines": [{"name": "coq-proof+correspondence", "path": "/verif/check",
                     "serves_properties": [c["property_id"] for c in checks],
                     "kind_free_text": "Coq 8.16.1 development under /verif/coq (models, statements, proofs) built with "
                     "coq_makefile+make; Python harness under /verif/harness runs /repo and the model (vm_compute in coqc) "
                     "on the same generated inputs"}],
        "checks": checks,
        "notes": "See DESIGN.md. known_findings.json lists recorded findings and fixed defects.",
        "not_applicable": na,
    }
    json.dump(m, open(os.path.join(ROOT, "MANIFEST.json"), "w"), indent=1)
    print("checks:", [c["property_id"] for c in checks])
main()
