#!/bin/bash
# tools/regress.sh   development aid: runs every stored seeded change (must be caught), every stored benign change (must stay silent)
# and every fix revert (must be caught) against the quick checks; writes /tmp/regress.log and prints the exceptions.
cd /verif
: > /tmp/regress.log
for s in $(ls seeded | sort -V); do timeout 1800 python3 tools/seed.py run $s 2>&1 | cut -c1-140 >> /tmp/regress.log; done
for s in $(ls benign | sort -V); do echo -n "BENIGN " >> /tmp/regress.log; timeout 1800 python3 tools/benign.py run $s 2>&1 | cut -c1-140 >> /tmp/regress.log; done
tools/reverts.sh 52990a2:C19 d80edc5:C17 82ae5da:C17 a221931:C18 a94530b:C08 3f53a3e:C08 500edd5:C11 1ae84f7:C07 d5f0119:C07 20414c4:C04 982287f:C15 73f5774:C14 2823208:C05 8724864:C01 b0b8050:C01 024849f:C09 889980a:C07 889980a:C03 889980a:C05 77c0d81:C17 77c0d81:C09 030b4f9:C15 cb3bba9:C02 866c44b:C13 efe07c0:C01 >> /tmp/regress.log 2>&1
echo "=== seeded changes not caught:"; grep -E "^C[0-9]+-[0-9]+ " /tmp/regress.log | grep -v VIOLATION
echo "=== benign changes that alarm:"; grep "^BENIGN" /tmp/regress.log | grep -v "exit 0"
echo "=== reverts not caught:"; grep " revert " /tmp/regress.log | grep -v VIOLATION
