#!/usr/bin/env python3
"""Benign (property-preserving) change bookkeeping: the checks must stay SILENT on these (same commands as tools/seed.py; confirm requires the demonstration to pass on both trees).
  tools/seed.py confirm <src_dir> <k> <prop>     confirm change k found in <src_dir> (changek.diff, demok.py, metak.json):
                                                 applies to a fresh scratch worktree, checks suite baseline unchanged, demo fails with
                                                 and passes without; on success stores it as seeded/<prop>-<n>/
  tools/seed.py run <seed_id> [prop...] [--tier t]   run check(s) against a stored seeded change (scratch worktree + VERIF_REPO),
                                                 record the outcome in seeded/<seed_id>/meta.json
  tools/seed.py table                            print which checks catch which changes
"""
import json, os, shutil, subprocess, sys, time

ROOT = os.path.dirname(os.path.dirname(os.path.abspath(__file__)))
SEEDED = os.path.join(ROOT, "benign")


def sh(cmd, **kw):
    return subprocess.run(cmd, capture_output=True, text=True, **kw)


class Scratch:
    def __init__(self, patch):
        self.d = "/tmp/benwt-%d-%d" % (os.getpid(), int(time.time() * 1000) % 100000)
        self.patch = patch

    def __enter__(self):
        r = sh(["git", "-C", "/repo", "worktree", "add", "-q", "--detach", self.d, "HEAD"])
        assert r.returncode == 0, r.stderr
        if self.patch:
            r = sh(["git", "-C", self.d, "apply", self.patch])
            if r.returncode != 0:
                self.__exit__()
                raise SystemExit("patch does not apply: " + r.stderr)
        return self.d

    def __exit__(self, *a):
        sh(["git", "-C", "/repo", "worktree", "remove", "--force", self.d])


def demo(tree, path):
    env = dict(os.environ, PYTHONPATH=tree, PYTHONDONTWRITEBYTECODE="1", PYTHONHASHSEED="0")
    r = sh(["/venv/bin/python", path], env=env, cwd=os.path.dirname(path), timeout=600)
    return r.returncode, (r.stdout + r.stderr)[-600:]


def confirm(src, k, prop):
    patch = os.path.join(src, "change%s.diff" % k)
    dem = os.path.join(src, "demo%s.py" % k)
    meta = json.load(open(os.path.join(src, "meta%s.json" % k)))
    ran = []
    rc0, out0 = demo("/repo", dem)
    ran.append("demo on /repo HEAD: exit %d" % rc0)
    with Scratch(patch) as d:
        rc1, out1 = demo(d, dem)
        ran.append("demo on patched tree: exit %d" % rc1)
        b = sh([os.path.join(ROOT, "tools/baseline.py"), d])
        ran.append("tools/baseline.py on patched tree: " + b.stdout.strip().split("\n")[0])
        base_ok = b.returncode == 0
    ok = rc0 == 0 and rc1 == 0 and base_ok
    print("\n".join(ran))
    if not ok:
        print("NOT CONFIRMED", out0[-300:], out1[-300:])
        return 1
    n = 1
    while os.path.exists(os.path.join(SEEDED, "%s-%d" % (prop, n))):
        n += 1
    dst = os.path.join(SEEDED, "%s-%d" % (prop, n))
    os.makedirs(dst)
    shutil.copy(patch, os.path.join(dst, "patch.diff"))
    shutil.copy(dem, os.path.join(dst, "demo.py"))
    meta.update({"property": prop, "confirmed": ran, "demo_output_on_patched_tree": out1, "source": "independent sub-agent given only the property text and a scratch worktree, asked for property-PRESERVING changes", "kind": "benign",
                 "repo_head": sh(["git", "-C", "/repo", "rev-parse", "--short", "HEAD"]).stdout.strip(), "checks": {}})
    json.dump(meta, open(os.path.join(dst, "meta.json"), "w"), indent=1)
    print("stored", dst)
    return 0


def run(seed_id, props, tier):
    dst = os.path.join(SEEDED, seed_id)
    meta = json.load(open(os.path.join(dst, "meta.json")))
    props = props or [meta["property"]]
    with Scratch(os.path.join(dst, "patch.diff")) as d:
        for p in props:
            env = dict(os.environ, VERIF_REPO=d)
            t0 = time.time()
            r = sh([os.path.join(ROOT, "check"), p, "--tier", tier], env=env, cwd=ROOT)
            lines = [l for l in r.stdout.split("\n") if l.startswith(("VIOLATION", "OK", "KNOWN-FINDING"))]
            detail = ""
            for l in lines:
                if l.startswith("VIOLATION") and "replay=" in l:
                    rp = l.split("replay=")[1].split()[0]
                    try:
                        rj = json.load(open(os.path.join(ROOT, rp)))
                        detail = json.dumps({k: rj.get(k) for k in ("kind", "case", "impl_observation", "why", "broken") if k in rj})[:1500]
                    except Exception:
                        pass
            meta.setdefault("checks", {})["%s/%s" % (p, tier)] = {
                "exit": r.returncode, "lines": lines, "wall_s": round(time.time() - t0), "replay_excerpt": detail,
                "stderr_tail": r.stderr[-300:] if r.returncode not in (0, 1) or not lines else ""}
            print(seed_id, p, tier, "exit", r.returncode, lines[:2])
    json.dump(meta, open(os.path.join(dst, "meta.json"), "w"), indent=1)


def table():
    for s in sorted(os.listdir(SEEDED)):
        mp = os.path.join(SEEDED, s, "meta.json")
        if not os.path.exists(mp):
            continue
        m = json.load(open(mp))
        res = []
        for k, v in sorted(m.get("checks", {}).items()):
            tag = "silent"
            if any(l.startswith("VIOLATION") for l in v["lines"]) or v["exit"] != 0:
                tag = "ALARM(no-input)" if any("no-failing-input-found" in l for l in v["lines"]) else "ALARM"
            res.append("%s:%s" % (k, tag))
        print("| %s | %s | %s | %s |" % (s, m.get("property"), m.get("summary", "")[:110].replace("|", "/"), ", ".join(res)))


if __name__ == "__main__":
    a = sys.argv[1:]
    if a[0] == "confirm":
        sys.exit(confirm(a[1], a[2], a[3]))
    if a[0] == "run":
        tier = "quick"
        if "--tier" in a:
            i = a.index("--tier"); tier = a[i + 1]; del a[i:i + 2]
        run(a[1], a[2:], tier)
    if a[0] == "table":
        table()
