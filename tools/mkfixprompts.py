#!/usr/bin/env python3
"""tools/mkfixprompts.py  writes notes/prompts/fix4-*.txt: briefs for the builders that strengthen checks after the
round-4 seeded changes that were missed (development aid)."""
import json, os
ROOT = os.path.dirname(os.path.dirname(os.path.abspath(__file__)))

TASKS = {
 "run": ("RUN-C", "C01/C02/C05 (run group)",
   "all run-group files: coq/Model/Run.v, Spec/Run.v, Proof/RunCore.v, RunExtra.v, RunTable.v, RunVerdict.v, C01/C02/C03/C05 Spec/Corr/Proof/Props, harness/vcheck/props/runprog.py, c01.py, c02.py, c03.py, c05.py (C03 must keep passing)",
   ["C01-5", "C02-6", "C05-6"],
   "Notes: (1) C01-5 needs TWO runs of one instance with the first run interrupted after catching >= 2 exceptions; C02 already runs every program twice but `python3 tools/seed.py run C01-5 C02` is also silent - find out why (first runs that propagate an exception may be excluded from the re-run, or alpha forgets the outcome list) and make the re-run clause of C02 and/or a two-run form of C01 see it. "
   "(2) C02-6 is about WHAT KIND of attribute patch() targets: the model's store is a flat map on one scratch object. Extend the patch-target domain with kinds whose get/set/delete semantics differ: plain instance attribute, class attribute seen through an instance or a subclass (inherited), property with setter, inherited __slots__ slot on a subclass with __dict__, missing. The seeding agent also reported that on the UNCHANGED tree patching Base.x and then Sub.x in one test leaves Sub.x shadowed with the patched Base value after the run (MonkeyPatcher reads the original with getattr, restores with setattr) - reproduce it; if real it is a defect of C02's clause 'every attribute changed with patch() has its pre-test value (or is absent again)': model it faithfully, delimit it with finding_F25 + C02_refuted_F25, write the witness JSON for known_findings.json and a minimal patch proposal to notes/fixes/. "
   "(3) C05-6: nothing in a program ever READS a detail before the outcome; add a side-effect-free 'peek' act (the body / a cleanup / an addOnException handler evaluates a detail's bytes mid-run) - the model ignores it, the statement (bytes as of report time) is unchanged."),
 "C04": ("FIX4-C04", "C04",
   "coq/Model/Result.v, coq/Spec/C04.v, Corr/C04.v, Proof/C04.v, Props/C04.v, harness/vcheck/props/c04.py, tabs/resulttabs.py, failfast.py",
   ["C04-5", "C04-6"],
   "Notes: C04-5 needs an interleaving (stop() on one TFR adapter while a sibling holds the shared semaphore) - C04's histories are sequential; decide whether to add a minimal two-adapter interleaving form for the 'stop() reaches the underlying result' clause here (harness/vcheck/sched.py is the deterministic scheduler used by C12/C13; do not change its behaviour) or to show it belongs to C12 (`tools/seed.py run C04-5 C12` is currently also silent; another builder, CONC13-R4, is strengthening C12 for the sibling change C12-5 which is the same acquire(False) idea - do not edit C12 files). "
   "C04-6 needs the REAL process exit status with a problem count that is a non-zero multiple of 256: extend the subprocess glue samples (counts 255, 256, 257, 512 mixes) and state the exit-status clause over the OS-visible status (status mod 256) in the model (`exit_status`) so that the theorem C04_exit covers it."),
 "C07": ("FIX4-C07", "C07",
   "coq/Model/Assertions.v, Model/TextRepr.v, coq/Spec/C07.v, Corr/C07.v, Proof/C07*.v, Props/C07.v, harness/vcheck/props/c07.py, gen_c07.py",
   ["C07-5"],
   "Note: the position of the `super().setUp()` / `super().tearDown()` upcall relative to the statements of setUp/tearDown is not part of the program; add it (statements before and after the upcall) - on the current code it does not matter, which is exactly what the statement needs. (C07-6, MatchesException.__str__ with a tuple of types, is caught.)"),
 "C08": ("FIX4-C08", "C08",
   "coq/Model/Adapters.v, AdaptersLit.v, coq/Spec/C08.v, Corr/C08.v, Proof/C08.v, Props/C08.v, harness/vcheck/props/c08.py, tabs/bytest.py",
   ["C08-6"],
   "Note: the TestByTestResult callback `on_test` never raises in the harness. Add fault injection at the callback (and, if cheap, at the other user-supplied callables in C08's anchors) with the statement clause that later tests are still reported once with THEIR OWN tags/details/times; check first what the real code does after on_test raises (who propagates what). (C08-5 is caught.)"),
 "C11": ("FIX4-C11", "C11",
   "coq/Model/StreamDecor.v, coq/Spec/C11.v, Corr/C11.v, Proof/C11.v, Props/C11.v, harness/vcheck/props/c11.py",
   ["C11-5", "C11-6"],
   "Note: both are value-domain blind spots: timestamps are only aware datetimes or missing (add naive datetimes, None passed explicitly, non-datetime placeholder objects), route codes never the empty string (add '', '/', 'a/', ' ')."),
 "conc": ("CONC13-R4", "C12 and C13",
   "coq/Model/Tfr.v, Model/Concur.v, coq/Spec/C12.v, C13.v, Corr/C12.v, C13.v, Proof/C12.v, C13*.v, Props/C12.v, C13.v, harness/vcheck/props/c12.py, c13.py, harness/vcheck/sched.py (keep backward compatible)",
   ["C12-5", "C13-6"],
   "Notes: C12-5 (`stop()` uses acquire(False)): thread B calling stop() while thread A is inside its block should be generated already (RGuard GStop) - find out why it is silent (does the harness's semaphore double accept acquire(False)? if a non-blocking acquire is not in the model of the semaphore, add it to the double so that the real code path runs, and make sure schedules with B's stop landing inside A's block exist); the related change C04-5 (stop request remembered and forwarded later; `python3 tools/seed.py run C04-5 C12`) should then be caught by C12 as well. "
   "C13-6: a stream-native worker passing timestamp=None EXPLICITLY (replaying recorded event dicts with result.status(**event)) - workers in the harness only omit the keyword; add worker kinds that pass explicit None and explicit own timestamps."),
 "C15": ("TW15-R4", "C15",
   "coq/Model/Reactor.v, Model/Spinner.v, coq/Spec/C15.v, Corr/C15.v, Proof/C15*.v, Props/C15.v, harness/vcheck/props/c15.py, harness/vcheck/vreactor.py (backward compatible)",
   ["C15-5"],
   "Note: needs TWO OR MORE re-entrant attempts inside one outer run with the first ReentryError caught by the caller (same Spinner and a different Spinner). (C15-6, connectionLost on leftover selectables, is caught.)"),
 "C16": ("FIX4-C16", "C16",
   "coq/Model/Content.v, Utf8.v, Mime.v, MimeCt.v (Mime*.v shared with C09: keep C09 building and passing), coq/Spec/C16.v, Corr/C16.v, Proof/C16.v, Utf8Sweep.v, Props/C16.v, harness/vcheck/props/c16.py, tabs/ctc16.py",
   ["C16-5", "C16-6"],
   "Notes: C16-5: readers always return full reads; add stream kinds whose read(n) legitimately returns fewer than n bytes before EOF (raw/unbuffered streams, pipes; a segmented reader double) to the _iter_chunks / read-loop model (`C16_read_loop`, `C16_iter_chunks` should quantify over ANY read-size oracle that returns 1..n bytes until EOF). "
   "C16-6: every Content is read once, completely; add histories of reads on ONE Content object: iter_text abandoned part-way, two iterators advanced alternately, repeated complete reads, for utf-8 with cuts inside multi-byte sequences and for BOM-carrying codecs if the codec model allows (otherwise sampled, say so) - statement: each complete read equals decoding the whole byte string, independent of other readers."),
 "C18": ("FIX4-C18", "C18",
   "coq/Model/Router.v, coq/Spec/C18.v, Corr/C18.v, Proof/C18.v, Props/C18.v, harness/vcheck/props/c18.py",
   ["C18-6"],
   "Note: add_rule calls that are REJECTED (TypeError for '/' in route_prefix, missing/extra keyword; ValueError for unknown policy) with do_start_stop_run=True and False, before and during a run, followed by a corrected retry with the same sink: a rejected add_rule must leave the router unchanged (sink not registered, not started), a retried one registers once. (C18-5 is caught.)"),
}

TEMPLATE = """Read /verif/notes/AGENT_PREAMBLE.md first and follow its rules (mandatory reading listed there: /verif/notes/BUILDER_GUIDE.md, /verif/DESIGN.md sections 3-5, the "### Cxx" entries of your properties and section 11, the finished example C19, the /verif/properties.jsonl entries). Also read the reports under /verif/notes/reports/ for your properties (earlier builders' reports; the latest sections describe the current model).

You are builder %(name)s. Property %(prop)s has a finished, integrated check. Your files: %(files)s. If you must change a file shared with another property, the other properties' Props/Corr targets must still build and their quick checks still pass.

Independently written breaking changes (round 4) that `./check` currently MISSES (`python3 tools/seed.py run <id> <prop>` -> exit 0):
%(seeds)s
%(extra)s

Job: for each, work out the blind spot and strengthen the check GENERALLY - extend the input domain of model / Spec / generator / driver (never special-case a patch) so that the whole class of such changes is exposed; `spec_okb` must not demand more than the property states, and the model must stay faithful to the current code (check the real code's behaviour on the new inputs FIRST; if the unchanged code violates the property's words on some new input, that is a defect: do not edit /repo - write witness + minimal patch to notes/fixes/, delimit it with a `findings` predicate + `_refuted` theorem, and report it). All Props theorems stay universally quantified, closed under the global context, no Admitted/admit/Axiom. Where part of a new domain cannot reasonably be carried by the Coq model, say so explicitly, keep it as a sampled extension judged by `spec_okb`, and name it in the module's ASSUMPTIONS/RULE - but prefer modelling.
Acceptance: `./check <prop> --tier quick` exit 0 on /repo HEAD for seeds 0,1,2 (<= ~2 min) and `--tier thorough --seed 1` exit 0 (<= ~12 min) for every property you touch; the listed seeds now give VIOLATION with a concrete failing input; every earlier seed of your properties (`python3 tools/seed.py table | grep <prop>-`) and the fix reverts relevant to them (see notes/revert-results.txt) are still caught; 2-3 further mutants of your own in the same spirit caught, one benign rewrite silent.
`timeout` on every coqc/make; other builders share the 16 cores: build only your targets with tools/coqmake. Do not `git commit`. Never modify /repo. Append a section "## Strengthening round 4" to the report file(s) of your properties under /verif/notes/reports/ and return a concise report (blind spots, what changed incl. files, theorem changes, case counts/timing, seeds now caught, anything found in /repo). Time budget ~3 hours.
"""

for key, (name, prop, files, seeds, extra) in TASKS.items():
    lines = []
    for s in seeds:
        m = json.load(open(os.path.join(ROOT, "seeded", s, "meta.json")))
        lines.append(" * /verif/seeded/%s (patch.diff, demo.py, meta.json): %s NEEDS: %s" % (
            s, " ".join(m.get("summary", "").split())[:700], " ".join(m.get("needs_to_manifest", "").split())[:500]))
    text = TEMPLATE % dict(name=name, prop=prop, files=files, seeds="\n".join(lines), extra=extra)
    open(os.path.join(ROOT, "notes", "prompts", "fix4-%s.txt" % key), "w").write(text)
    print("wrote fix4-%s.txt" % key, len(text))
