#!/usr/bin/env python3
"""tools/mkfixprompts.py  writes notes/prompts/fix4-*.txt: briefs for the builders that strengthen checks after the
seeded changes of the latest round that were missed (development aid)."""
import json, os
ROOT = os.path.dirname(os.path.dirname(os.path.abspath(__file__)))

TASKS = {
 "run": ("RUN-D", "C01 (run group)",
   "all run-group files: coq/Model/Run.v, Spec/Run.v, Proof/RunCore.v, RunExtra.v, RunTable.v, RunVerdict.v, C01/C02/C03/C05 Spec/Corr/Proof/Props, harness/vcheck/props/runprog.py, c01.py, c02.py, c03.py, c05.py (all four must keep passing)",
   ["C01-8"],
   "Note: the way the RunTest object is CONSTRUCTED is not in the input domain: only the default factory is used. Add custom RunTest factories to the harness in every way the code supports (class attribute run_tests_with, the runTest= constructor argument, the @run_test_with decorator): a RunTest subclass whose __init__ takes (case, handlers=None, last_resort=None), one taking (case, *args, **kwargs), a plain function factory with explicit and with star arguments, functools.partial(RunTest), and an old-style factory that does not accept last_resort at all (the code retries without it on TypeError). On the current code the bracket/one-outcome/propagation statement holds for all of them (check!), so the model needs at most a flag that it ignores; the statement is unchanged."),
 "C04": ("FIX6-C04", "C04",
   "coq/Model/Result.v, coq/Spec/C04.v, Corr/C04.v, Proof/C04.v, Props/C04.v, harness/vcheck/props/c04.py, tabs/resulttabs.py, failfast.py",
   ["C04-8"],
   "Note: the command-line glue samples never run an EMPTY selection: a module with no tests, a --load-list that matches nothing, a unittest.TestCase class skipped entirely with @unittest.skip (on Python 3.12 such skips bypass startTest, so testsRun stays 0), a run whose every test is skipped. The statement: exit status 0 exactly when wasSuccessful() (the printed summary says OK). Add them to the subprocess and in-process samples (python -m testtools.run and TestProgram), for both verdicts."),
 "C07": ("FIX6-C07", "C07",
   "coq/Model/Assertions.v, Model/TextRepr.v, coq/Spec/C07.v, Corr/C07.v, Proof/C07*.v, Props/C07.v, harness/vcheck/props/c07.py, gen_c07.py (gen_c06.py is shared with C06: additive changes only, C06 must keep passing)",
   ["C07-7", "C07-8"],
   "Note: both are in the describability part (IDesc cases: every stock matcher instantiated with mismatching values; str(matcher), describe(), get_details(), str(MismatchError) verbose or not, and assertThat/assert_that/expectThat on it). Blind spots in the ARGUMENT domain of the stock matchers: (a) text arguments containing characters that are special to the formatting machinery used to build messages: braces { } {0} {name}, percent signs %s %d %%, backslashes, in regex patterns (MatchesRegex, and MatchesException with a regex), in expected strings of StartsWith/EndsWith/Contains/Equals, in Annotate messages, in file names and contents; (b) container-typed arguments given as tuple / list / set / frozenset / generator where the constructor accepts an iterable (DirContains filenames, MatchesException with a tuple of types, IsInstance with several types, MatchesListwise/MatchesSetwise/MatchesAny/MatchesAll argument lists, TarballContains paths), including the empty and the 1-element tuple. Extend gen_c07.py systematically over ALL names in testtools.matchers.__all__ (not only the two matchers of the patches)."),
 "conc": ("CONC13-R5", "C13",
   "coq/Model/Concur.v, coq/Spec/C13.v, Corr/C13.v, Proof/C13*.v, Props/C13.v, harness/vcheck/props/c13.py, harness/vcheck/sched.py (backward compatible)",
   ["C13-7"],
   "Note: sub-suites of a ConcurrentStreamTestSuite always get DISTINCT route codes in the harness; the docstring allows equal ones (for example all None). Let route codes repeat (None, equal strings) in model input, Spec (events carry that worker's own route code - equal codes are then indistinguishable by code, so identify a worker's events by the test ids it runs, which the harness keeps distinct), generator and driver; every worker must still be joined, every event delivered, abort must stop every started worker."),
 "C15": ("TW15-R5", "C15",
   "coq/Model/Reactor.v, Model/Spinner.v, coq/Spec/C15.v, Corr/C15.v, Proof/C15*.v, Props/C15.v, harness/vcheck/props/c15.py, harness/vcheck/vreactor.py (backward compatible)",
   ["C15-8"],
   "Note: stop requests (reactor.stop()) only ever arrive from the function, from its delayed calls or via a signal. Add stop requests issued DURING REACTOR START-UP, before the function has been called: hooks registered with reactor.callWhenRunning (or addSystemEventTrigger('after', 'startup', ...)) before Spinner.run is entered that call reactor.stop() directly; also hooks that only schedule something. Statement clause: the reactor was stopped before the function produced a result -> NoResultError (and everything is restored / cleaned as on every path). The virtual reactor must run such hooks in registration order before the Spinner's own callWhenRunning hook, as the real reactor does (check with the real reactor sample)."),
 "C18": ("FIX6-C18", "C18",
   "coq/Model/Router.v (also imported by C11: keep C11 building and passing), coq/Spec/C18.v, Corr/C18.v, Proof/C18.v, Props/C18.v, harness/vcheck/props/c18.py",
   ["C18-7"],
   "Note: histories never RE-MAP a key: two accepted add_rule calls for the same route prefix (or the same test id) with different sinks, before and during a run, and never let ONE sink serve several rules (two prefixes, a prefix and a test id, a rule and the fallback) - check what wf_distinct excludes and widen it as far as the code supports. Statement: after re-mapping, events for the key go to the new sink only; every sink registered with do_start_stop_run=True that is still referenced by some rule (and, as the current code does, also one that no rule references any more - check the real code and state exactly that) receives startTestRun/stopTestRun once per run; a sink is never stopped while a rule still routes to it."),
}

TEMPLATE = """Read /verif/notes/AGENT_PREAMBLE.md first and follow its rules (mandatory reading listed there: /verif/notes/BUILDER_GUIDE.md, /verif/DESIGN.md sections 3-5, the "### Cxx" entries of your properties and section 11, the finished example C19, the /verif/properties.jsonl entries). Also read the reports under /verif/notes/reports/ for your properties (earlier builders' reports; the latest sections describe the current model).

You are builder %(name)s. Property %(prop)s has a finished, integrated check. Your files: %(files)s. If you must change a file shared with another property, the other properties' Props/Corr targets must still build and their quick checks still pass.

Independently written breaking changes (round 5) that `./check` currently MISSES (`python3 tools/seed.py run <id> <prop>` -> exit 0):
%(seeds)s
%(extra)s

Job: for each, work out the blind spot and strengthen the check GENERALLY - extend the input domain of model / Spec / generator / driver (never special-case a patch) so that the whole class of such changes is exposed; `spec_okb` must not demand more than the property states, and the model must stay faithful to the current code (check the real code's behaviour on the new inputs FIRST; if the unchanged code violates the property's words on some new input, that is a defect: do not edit /repo - write witness + minimal patch to notes/fixes/, delimit it with a `findings` predicate + `_refuted` theorem, and report it). All Props theorems stay universally quantified, closed under the global context, no Admitted/admit/Axiom. Where part of a new domain cannot reasonably be carried by the Coq model, say so explicitly, keep it as a sampled extension judged by `spec_okb`, and name it in the module's ASSUMPTIONS/RULE - but prefer modelling.
Acceptance: `./check <prop> --tier quick` exit 0 on /repo HEAD for seeds 0,1,2 (<= ~2 min) and `--tier thorough --seed 1` exit 0 (<= ~12 min) for every property you touch; the listed seeds now give VIOLATION with a concrete failing input; every earlier seed of your properties (`python3 tools/seed.py table | grep <prop>-`) and the fix reverts relevant to them (see notes/revert-results.txt) are still caught; 2-3 further mutants of your own in the same spirit caught, one benign rewrite silent.
`timeout` on every coqc/make; other builders share the 16 cores: build only your targets with tools/coqmake. Do not `git commit`. Never modify /repo. Append a section "## Strengthening round 5" to the report file(s) of your properties under /verif/notes/reports/ and return a concise report (blind spots, what changed incl. files, theorem changes, case counts/timing, seeds now caught, anything found in /repo). Time budget ~3 hours.
"""

for key, (name, prop, files, seeds, extra) in TASKS.items():
    lines = []
    for s in seeds:
        m = json.load(open(os.path.join(ROOT, "seeded", s, "meta.json")))
        lines.append(" * /verif/seeded/%s (patch.diff, demo.py, meta.json): %s NEEDS: %s" % (
            s, " ".join(m.get("summary", "").split())[:700], " ".join(m.get("needs_to_manifest", "").split())[:500]))
    text = TEMPLATE % dict(name=name, prop=prop, files=files, seeds="\n".join(lines), extra=extra)
    open(os.path.join(ROOT, "notes", "prompts", "fix6-%s.txt" % key), "w").write(text)
    print("wrote fix6-%s.txt" % key, len(text))
