#!/usr/bin/env python3
"""tools/designtables.py  rewrites the generated tables of DESIGN.md section 11 (between the BEGIN/END GENERATED markers)
from evidence/*.json, coq/Props/*.v, seeded/*/meta.json and notes/revert-results.txt."""
import glob, json, os, re
ROOT = os.path.dirname(os.path.dirname(os.path.abspath(__file__)))

def status():
    rows = ["| prop | theorems in Props | obligations (discharged) | quick cases (non-trivial) | assumptions reported | known findings |",
            "|---|---|---|---|---|---|"]
    kf = json.load(open(os.path.join(ROOT, "known_findings.json")))
    for k in range(1, 21):
        pid = "C%02d" % k
        try:
            ev = json.load(open(os.path.join(ROOT, "evidence", pid + ".json")))
        except Exception:
            continue
        cov = ev["coverage"]
        text = re.sub(r"\(\*.*?\*\)", "", open(os.path.join(ROOT, "coq/Props/%s.v" % pid)).read(), flags=re.S)
        thms = re.findall(r"^\s*Theorem\s+([A-Za-z0-9_']+)", text, flags=re.M)
        pa = [t for t in cov.get("trusted_base", []) if t.startswith("Print Assumptions")]
        closed = sum("Closed under the global context" in t for t in pa)
        fs = [f["id"] for f in kf["findings"] if f["property"] == pid]
        short = ", ".join(t.replace(pid + "_", "") for t in thms)
        rows.append("| %s | %d: %s | %s (%s) | %s (%s), %s | %d/%d closed under the global context | %s |" % (
            pid, len(thms), short, cov.get("obligations"), cov.get("discharged"), cov.get("evaluations"),
            cov.get("distinct_nontrivial"), ev["tier"], closed, len(pa), ", ".join(fs) or "-"))
    return "\n".join(rows)

def seeds():
    rows = ["| change | what it does (summary by its author) | needs | result |", "|---|---|---|---|"]
    for s in sorted(os.listdir(os.path.join(ROOT, "seeded")), key=lambda x: (x.split("-")[0], int(x.split("-")[1]))):
        mp = os.path.join(ROOT, "seeded", s, "meta.json")
        if not os.path.exists(mp):
            continue
        m = json.load(open(mp))
        res = []
        for k, v in sorted(m.get("checks", {}).items()):
            tag = "MISSED"
            if any(l.startswith("VIOLATION") for l in v["lines"]):
                tag = "caught, no input" if any("no-failing-input-found" in l for l in v["lines"]) else "caught with failing input"
            res.append("%s: %s" % (k, tag))
        clean = lambda t: " ".join(str(t).split()).replace("|", "/")
        verdict = (" — " + clean(m["coordinator_verdict"])[:400]) if m.get("coordinator_verdict") else ""
        rows.append("| %s | %s | %s | %s%s |" % (s, clean(m.get("summary", ""))[:260], clean(m.get("needs_to_manifest", ""))[:200], "; ".join(res), verdict))
    return "\n".join(rows)

def reverts():
    last = {}
    p = os.path.join(ROOT, "notes", "revert-results.txt")
    if os.path.exists(p):
        for line in open(p):
            m = re.match(r"\S+ revert (\w+) (C\d\d): (.*)", line)
            if m:
                last[(m.group(1), m.group(2))] = m.group(3).strip()
    subj = {}
    import subprocess
    for (h, pr) in last:
        subj[h] = subprocess.run(["git", "-C", "/repo", "log", "-1", "--format=%s", h], capture_output=True, text=True).stdout.strip()
    rows = ["| fix commit reverted | property | check result on the reverted tree |", "|---|---|---|"]
    for (h, pr), out in sorted(last.items(), key=lambda x: (x[0][1], x[0][0])):
        tag = "VIOLATION with failing input" if "VIOLATION" in out and "no-failing-input-found" not in out else ("VIOLATION, no input" if "VIOLATION" in out else "not flagged: " + out)
        rows.append("| %s %s | %s | %s |" % (h, subj.get(h, "")[:110].replace("|", "/"), pr, tag))
    return "\n".join(rows)

def main():
    path = os.path.join(ROOT, "DESIGN.md")
    text = open(path).read()
    for name, fn in (("status", status), ("seeds", seeds), ("reverts", reverts)):
        b, e = "<!-- BEGIN GENERATED: %s -->" % name, "<!-- END GENERATED: %s -->" % name
        if b in text and e in text:
            i, j = text.index(b) + len(b), text.index(e)
            text = text[:i] + "\n" + fn() + "\n" + text[j:]
    open(path, "w").write(text)
main()
